"""A backend that writes nothing: used to observe the Api that stone.cli hands to backends."""
from stone.backend import Backend


class RecordingBackend(Backend):
    preserve_aliases = True

    def generate(self, api):
        pass
