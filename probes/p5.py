import sys, os, tempfile, shutil, traceback, json, io
from stone.frontend.frontend import specs_to_ir
from stone.compiler import Compiler, BackendException
import importlib

cfg = '''
namespace stone_cfg

import common

struct Route
    auth String = "user"
    host String = "api"
    style String = "rpc"
    is_preview Boolean = false
    scope String?
    kind common.Kind = a
'''
common = '''
namespace common

alias Id = String(min_length=1)
alias Ids = List(Id)

union Kind
    a
    b

struct Pt
    x Int32
    y Int32?
'''
spec = '''
namespace files

import common

struct Resource
    union_closed
        file File
        folder Folder
    path String = "say \\"hi\\" \\\\"
    id common.Id

struct File extends Resource
    size UInt64
    tags Map(String, List(common.Pt))
    ids common.Ids?
    mm Map(String, common.Id)

struct Folder extends Resource
    "No new fields. See :field:`Resource.path` :link:`Stone Repo https://github.com/dropbox/stone`."

union Err
    not_found
    bad Resource
    pts List(common.Pt)?
    when Timestamp("%Y-%m-%d")

struct ListArg
    path String
    recursive Boolean = false
    limit UInt32(min_value=1, max_value=1000) = 10
    ratio Float64 = 1.5
    pt common.Pt?
    kind common.Kind = b

route list(ListArg, List(Resource), Err)
    "List stuff :route:`upload:2` and :val:`true`"
    attrs
        scope = "files.read"

route upload:2(File, Void, Void) deprecated by list
    attrs
        style = "upload"
        auth = "app, user"

route download(ListArg, File, Err)
    attrs
        style = "download"
        kind = b

route noarg(Void, common.Kind, Void)
'''
routes_only = '''
namespace ronly

import common

route ping(Void, Void, Void)
route ping2(common.Pt, Void, Void)
'''
specs = [('cfg.stone', cfg), ('common.stone', common), ('files.stone', spec), ('ronly.stone', routes_only)]
client_args = json.dumps({
  "upload": [["upload", [["input", "input", "Data", "The file to upload"]]]],
  "download": [["download_file", [["overwrite","overwrite","Bool = false","doc"],["destination","destination","URL","doc"]]], ["download_memory", []]],
})
style_to_request = json.dumps({"rpc": "RpcRequest", "upload": "UploadRequest", "download_file": "DownloadRequestFile", "download_memory": "DownloadRequestMemory"})
objc_client_args = client_args
runs = [
  ('python_types', ['-p', 'pkg']),
  ('python_type_stubs', ['-p', 'pkg']),
  ('python_client', ['-m','client','-c','Client','-t','pkg']),
  ('js_client', ['routes.js', '-c', 'Dbx', '-a', 'scope']),
  ('js_types', ['types.js']),
  ('tsd_types', ['tpl.d.ts', 'types.d.ts']),
  ('tsd_types', ['tpl.d.ts']),
  ('tsd_client', ['tplc.d.ts', 'client.d.ts']),
  ('swift_types', []),
  ('swift_types', ['--objc']),
  ('swift_client', ['-m','Mod','-c','Cls','-t','Transport','-y',client_args,'-z',style_to_request]),
  ('swift_client', ['-m','Mod','-c','Cls','-t','Transport','-y',client_args,'-z',style_to_request,'--objc']),
  ('obj_c_types', []),
  ('obj_c_client', ['-m','Mod','-c','Cls','-t','Transport','-y',objc_client_args,'-z',style_to_request, '-w', 'user']),
]
def actual(out):
    r=[]
    for root,_,fs in os.walk(out):
        for f in fs: r.append(os.path.relpath(os.path.join(root,f), out))
    return sorted(r)
keep = tempfile.mkdtemp()
for name, args in runs:
    mod = importlib.import_module('stone.backends.'+name)
    res = {}
    for manifest in (False, True):
        out = tempfile.mkdtemp()
        open(os.path.join(out,'tpl.d.ts'),'w').write('// header\n/*TYPES*/\n// footer\n')
        open(os.path.join(out,'tplc.d.ts'),'w').write('class C {\n/*ROUTES*/\n}\n')
        pre = set(actual(out))
        try:
            api = specs_to_ir(specs)
            c = Compiler(api, mod, args, out, output_manifest=manifest)
            c.build()
            res[manifest] = (sorted(set(actual(out))-pre), c.output_manifest())
            if not manifest:
                dst = os.path.join(keep, name + ('_objc' if '--objc' in args else '') + ('_split' if args==['tpl.d.ts'] else ''))
                shutil.copytree(out, dst)
        except BackendException as e:
            res[manifest] = ('EXC', e.traceback.strip().splitlines()[-1], [l for l in e.traceback.splitlines() if 'stone/backends' in l][-1:])
        shutil.rmtree(out)
    real, man = res[False], res[True]
    if real[0]=='EXC' or man[0]=='EXC':
        print(name, args[:2], 'REAL', real if real[0]=='EXC' else 'ok', 'MAN', man if man[0]=='EXC' else 'ok')
    else:
        ok = real[0]==man[1] or (set(real[0]) | {'tpl.d.ts','tplc.d.ts'}) == set(man[1]) | {'tpl.d.ts','tplc.d.ts'}
        print(name, args[:2], 'files', len(real[0]), 'manifest==real', real[0]==man[1], 'manifest wrote', man[0], '' if real[0]==man[1] else (set(real[0])^set(man[1])))
print(keep)
