import traceback, json
from stone.frontend.frontend import specs_to_ir
from stone.frontend.exception import InvalidSpec

def t(name, *texts, **kw):
    try:
        api = specs_to_ir([(f'f{i}.stone', x) for i, x in enumerate(texts)], **kw)
        print(f"[{name}] OK")
        return api
    except InvalidSpec as e:
        print(f"[{name}] InvalidSpec: {e.msg!r} line={e.lineno} path={e.path}")
    except BaseException as e:
        tb = traceback.extract_tb(e.__traceback__)[-1]
        print(f"[{name}] ESCAPE {type(e).__name__}: {e}  @ {tb.filename.split('/')[-1]}:{tb.lineno}")

H='namespace ns\n'
t('void field via alias', H+'alias V = Void\nstruct S\n    f V\n')
t('void tag explicit via alias', H+'alias V = Void\nunion U\n    f V\n')
t('default on nullable via alias', H+'alias N = String?\nstruct S\n    f N = "x"\n')
t('nullable void via alias', H+'alias V = Void\nstruct S\n    f V?\n')
t('extends alias', H+'struct P\n    a String\nalias Q = P\nstruct S extends Q\n    f String\n')
t('List(Void)', H+'struct S\n    f List(Void)\n')
t('Map val Void', H+'struct S\n    f Map(String, Void)\n')
t('List(String??)', H+'alias N = String?\nstruct S\n    f List(N?)\n')
t('route arg nullable', H+'struct S\n    f String\nroute r(S?, Void, Void)\n')
t('route arg primitive', H+'route r(String, Int32, List(String))\n')
t('route arg route', H+'route q(Void,Void,Void)\nroute r(q, Void, Void)\n')
t('field type is annotation', H+'annotation A = Deprecated()\nstruct S\n    f A\n')
t('field type is annotation type', H+'annotation_type A\n    x String\nstruct S\n    f A\n')
t('field type is namespace', 'namespace b\n', H+'import b\nstruct S\n    f b\n')
t('alias to annotation', H+'annotation A = Deprecated()\nalias B = A\nstruct S\n    f B\n')
t('annotation ref to struct', H+'struct T\n    g String\nstruct S\n    f String\n        @T\n')
t('closed union extends open', H+'union U\n    a\nunion_closed C extends U\n    b\n')
t('open union extends closed', H+'union_closed U\n    a\nunion C extends U\n    b\n')
t('union tag dup parent', H+'union U\n    a\nunion C extends U\n    a\n')
t('union tag other', H+'union U\n    other\n')
t('struct field dup grandparent', H+'struct A\n    x String\nstruct B extends A\n    y String\nstruct C extends B\n    x String\n')
t('subtype tag == field', H+'struct R\n    union\n        a A\n    a String\nstruct A extends R\n    z String\n')
t('subtype tag == subtype field', H+'struct R\n    union\n        a A\n    b String\nstruct A extends R\n    a String\n')
t('subtype missing', H+'struct R\n    union\n        a A\n    b String\nstruct A extends R\n    z String\nstruct B extends R\n    y String\n')
t('subtype listed twice', H+'struct R\n    union\n        a A\n        b A\n    c String\nstruct A extends R\n    z String\n')
t('subtype tag dup', H+'struct R\n    union\n        a A\n        a B\n    c String\nstruct A extends R\n    z String\nstruct B extends R\n    y String\n')
t('subtype extended', H+'struct R\n    union\n        a A\n    c String\nstruct A extends R\n    z String\nstruct AA extends A\n    y String\n')
t('empty subtypes union', H+'struct R\n    union\n    c String\n')
t('two patches same type',
  H+'struct S\n    a String\n',
  H+'patch struct S\n    b String?\n',
  H+'patch struct S\n    c String?\n')
api = t('two patches same type (api)',
  H+'struct S\n    a String\n',
  H+'patch struct S\n    b String?\n',
  H+'patch struct S\n    c String?\n')
print('   fields:', [f.name for f in api.namespaces['ns'].data_type_by_name['S'].fields])
t('patch adds dup of parent field', H+'struct P\n    a String\nstruct S extends P\n    b String\n', H+'patch struct S\n    a String?\n')
t('patch of route', H+'route r(Void,Void,Void)\n', H+'patch struct r\n    a String?\n')
t('patch of namespace name', H+'patch struct ns\n    a String?\n')
t('patch canonical collision', H+'struct my_s\n    a String\n', H+'patch struct MyS\n    b String?\n')
# order dependence
a1 = t('annot types order 1', H+'annotation_type B\n    x String\n', H+'annotation_type A\n    y String\n')
print('   ', [a.name for a in a1.namespaces['ns'].annotation_types])
a1 = t('annot types order 2', H+'annotation_type A\n    y String\n', H+'annotation_type B\n    x String\n')
print('   ', [a.name for a in a1.namespaces['ns'].annotation_types])
# imports across files of same namespace
t('import in second file', 'namespace b\nstruct T\n    g String\n', H+'struct S\n    f b.T\n', H+'import b\n')
t('import in second file, reversed', 'namespace b\nstruct T\n    g String\n', H+'import b\n', H+'struct S\n    f b.T\n')
t('import before ns defined', H+'import b\nstruct S\n    f b.T\n', 'namespace b\nstruct T\n    g String\n')
t('circular import', 'namespace b\nimport ns\nstruct T\n    g String\n', H+'import b\nstruct S\n    f b.T\n')
# whitelist
spec = H+'alias A = T\nstruct T\n    g String\nstruct U\n    h A\nroute r(Void, Void, Void)\n'
api = t('whitelist alias dangling', spec, route_whitelist_filter={'route_whitelist': {'ns': ['r']}, 'datatype_whitelist': {}})
ns = api.namespaces['ns']
print('   types', [d.name for d in ns.data_types], 'aliases', [(a.name, a.data_type.name) for a in ns.aliases])
t('whitelist unknown ns', spec, route_whitelist_filter={'route_whitelist': {'zz': ['r']}, 'datatype_whitelist': {}})
t('whitelist unknown route', spec, route_whitelist_filter={'route_whitelist': {'ns': ['zz']}, 'datatype_whitelist': {}})
t('whitelist bad version', spec, route_whitelist_filter={'route_whitelist': {'ns': ['r:x']}, 'datatype_whitelist': {}})
t('whitelist ns not in route_whitelist but types', spec, route_whitelist_filter={'route_whitelist': {}, 'datatype_whitelist': {'ns': ['U']}})
