import sys, os, tempfile, shutil, traceback, importlib
from stone.frontend.frontend import specs_to_ir
from stone.frontend.exception import InvalidSpec
from stone.compiler import Compiler, BackendException
import stone.backends.python_types as pt

def gen(spec_texts, backend_mod, args, out):
    api = specs_to_ir([(f'f{i}.stone', t) for i, t in enumerate(spec_texts)])
    c = Compiler(api, backend_mod, args, out)
    c.build()
    return api

spec = '''
namespace ns1

struct Person
    name String = "John Doe"
    age UInt64
'''
out = tempfile.mkdtemp()
try:
    gen([spec], pt, ['-p', 'pkg'], out)
    print("OK generated")
    print(open(os.path.join(out, 'ns1.py')).read()[-600:])
except BackendException as e:
    print("BackendException", e.traceback[-800:])
shutil.rmtree(out)
