import sys, os, tempfile, shutil, hashlib
from stone.frontend.frontend import specs_to_ir
from stone.compiler import Compiler
import stone.backends.python_types as pt, stone.backends.python_client as pc
a = 'namespace common\nstruct Pt\n    x Int32\n'
b = 'namespace ronly\nimport common\nroute ping(Void, Void, Void)\nroute ping2(common.Pt, Void, Void)\n'
c = 'namespace perm\nannotation A = Omitted("alpha")\nannotation B = Omitted("beta")\nannotation C = Omitted("gamma")\nunion U\n    x\n        @A\n    y\n        @B\n    z\n        @C\n'
out = tempfile.mkdtemp(); pkg = out+'/pkg'; os.makedirs(pkg)
for mod, args in ((pt, ['-p','pkg']), (pc, ['-m','client','-c','Client','-t','pkg'])):
    Compiler(specs_to_ir([('a',a),('b',b),('c',c)]), mod, args, pkg).build()
print(hashlib.sha256(open(pkg+'/perm.py','rb').read()).hexdigest()[:12], [l.strip() for l in open(pkg+'/perm.py') if 'permissioned' in l])
if len(sys.argv) > 1:
    sys.path.insert(0, out)
    import pkg.client as client
    class My(client.Client):
        def request(self, *a, **k): return a
    try: print(My().ronly_ping())
    except Exception as e: print('ESCAPE', type(e).__name__, e)
shutil.rmtree(out)
