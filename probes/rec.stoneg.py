from stone.backend import Backend
import builtins
class Rec(Backend):
    def generate(self, api):
        builtins._REC_API = api
