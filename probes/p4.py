import sys, os, tempfile, shutil, traceback, importlib, json, subprocess
from stone.frontend.frontend import specs_to_ir
from stone.compiler import Compiler, BackendException
import stone.backends.python_types as pt
import stone.backends.python_client as pc
import stone.backends.python_type_stubs as ps

spec = '''
namespace ns
    "Doc for ns"

import other

annotation Internal = Omitted("internal")
annotation Alpha = Omitted("alpha")
annotation Blot = RedactedBlot()
annotation Hash = RedactedHash()

alias Secret = String
    @Blot

struct Base
    union
        leaf Leaf
        leaf2 Leaf2
    id Int64
    name String = "john"

struct Leaf extends Base
    x List(String?)
    m Map(String, Int32?)

struct Leaf2 extends Base
    "no fields"

struct Empty
    "nothing"

struct Opt
    a String?
    b Int32 = 5

union U
    v
    s String
    e Empty?
    o Opt?
    b Base
    l List(Base)
    u other.V
    st Opt
    hidden String
        @Internal
    hidden2
        @Alpha

union_closed C
    x
    y Int32

union Uv extends U
    extra Float64

struct Holder
    u U
    c C = x
    f32 Float32 = 1
    ts Timestamp("%Y-%m-%dT%H:%M:%SZ")
    byt Bytes
    sec Secret
    secs List(Secret)
    h Int64
        @Hash
    i String?
        @Internal

route do_it(Holder, U, C)
    "Does it. See :type:`Holder` and :route:`do_it:2`."

route do_it:2(Void, Void, Void) deprecated

route up(Opt, Void, Void) deprecated by do_it:2
'''
other = '''
namespace other

union V
    p
    q Boolean

route only_route(Void, Void, Void)
'''
out = tempfile.mkdtemp()
pkg = os.path.join(out, 'pkg'); os.makedirs(pkg)
def build(mod, args, outdir):
    api = specs_to_ir([('ns.stone', spec), ('other.stone', other)])
    Compiler(api, mod, args, outdir).build()
try:
    build(pt, ['-p', 'pkg'], pkg)
    build(ps, ['-p', 'pkg'], pkg)
    build(pc, ['-m', 'client', '-c', 'Client', '-t', 'pkg'], pkg)
    print(sorted(os.listdir(pkg)))
except BackendException as e:
    print("BackendException", e.traceback[-1500:])
    sys.exit()
sys.path.insert(0, out)
import pkg.ns as ns, pkg.other as oth
from stone.backends.python_rsrc import stone_serializers as ss, stone_validators as bv
print('permissioned tagmaps line:', [l for l in open(os.path.join(pkg,'ns.py')) if '_permissioned_tagmaps' in l])

def rt(validator, v, **kw):
    try:
        j = ss.json_compat_obj_encode(validator, v, **kw)
        d = ss.json_compat_obj_decode(validator, j, **kw)
        return j, d == v, d
    except Exception as e:
        return 'EXC', type(e).__name__, str(e)[:100]

print(rt(ns.U_validator, ns.U.e(ns.Empty())))
print(rt(ns.U_validator, ns.U.o(ns.Opt())))
print(rt(ns.U_validator, ns.U.o(ns.Opt(a='x'))))
print(rt(ns.U_validator, ns.U.st(ns.Opt())))
print(rt(ns.U_validator, ns.U.b(ns.Leaf(id=1, x=['a', None], m={'k': None, 'j': 3}))))
print(rt(ns.U_validator, ns.U.l([ns.Leaf2(id=2)])))
print(rt(ns.U_validator, ns.U.u(oth.V.q(True))))
print(rt(ns.Uv_validator, ns.Uv.extra(1)))
print(rt(ns.Uv_validator, ns.U.v))   # parent union value where child expected
print(rt(ns.U_validator, ns.U.hidden('zz')))
class P:
    permissions = ['internal']
print(rt(ns.U_validator, ns.U.hidden('zz'), caller_permissions=P()))
# decode robustness
for doc in [5, 'x', None, [], {'.tag': 5}, {'.tag': 'leaf'}, {'.tag': 'leaf', 'id': True, 'x': [], 'm': {}}]:
    for strict in (True, False):
        try:
            r = ss.json_compat_obj_decode(ns.Base_validator, doc, strict=strict)
            print('decode Base', doc, strict, '->', r)
        except bv.ValidationError as e:
            print('decode Base', doc, strict, 'VE', e)
        except Exception as e:
            print('decode Base', doc, strict, 'ESCAPE', type(e).__name__, e)
for doc in ['é', 'a', '!!!!', 'YQ', 'YQ=x']:
    try:
        print('bytes', doc, ss.json_compat_obj_decode(bv.Bytes(), doc))
    except bv.ValidationError as e:
        print('bytes', doc, 'VE')
    except Exception as e:
        print('bytes', doc, 'ESCAPE', type(e).__name__, e)
# object() as union
h = ns.Holder()
for v in [object(), ns.C.x, 'x', None, ns.U]:
    try:
        h.u = v; print('assign u', v, 'ACCEPTED')
    except bv.ValidationError as e: print('assign u', v, 'VE')
    except Exception as e: print('assign u', v, 'ESCAPE', type(e).__name__, e)
# client
import pkg.client as client
print([m for m in dir(client.Client) if not m.startswith('_')])
class My(client.Client):
    def request(self, route, namespace, arg, binary, timeout=None):
        return (route, namespace, arg, binary)
c = My()
try:
    print(c.other_only_route())
except Exception as e:
    print('client other_only_route ESCAPE', type(e).__name__, e)
try:
    print(c.ns_up())
except Exception as e:
    print('client ns_up ESCAPE', type(e).__name__, e)
shutil.rmtree(out)
