import json, tempfile, shutil, os, re
exec(open('p5.py').read().split("client_args = json.dumps")[0])
from stone.frontend.frontend import specs_to_ir
from stone.compiler import Compiler, BackendException
import stone.backends.obj_c_client as oc
specs2 = [(p, t.replace('= "say \\"hi\\" \\\\"', '= "plain"')) for p, t in specs]
client_args = json.dumps({
  "upload": [["upload", ["Data", [["input", "input", "NSData *", "doc"]]]], ["upload", ["Url", [["inputUrl", "inputUrl", "NSString *", "doc"]]]]],
  "download": [["download_file", ["Url", [["overwrite","overwrite","BOOL","doc"],["destination","destination","NSURL *","doc"]]]], ["download_memory", ["Data", []]]],
})
s2r = json.dumps({"rpc": "DBRpcTask", "upload": "DBUploadTask", "download_file": "DBDownloadUrlTask", "download_memory": "DBDownloadDataTask"})
out = tempfile.mkdtemp()
try:
    Compiler(specs_to_ir(specs2), oc, ['-m','Mod','-c','Cls','-t','Transport','-y',client_args,'-z',s2r,'-w','user'], out).build()
    for r,_,fs in os.walk(out):
        for f in fs: print(os.path.relpath(os.path.join(r,f), out), os.path.getsize(os.path.join(r,f)))
except BackendException as e:
    print(e.traceback[-900:])
shutil.rmtree(out)
