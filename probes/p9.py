import time
from stone.frontend.parser import ParserFactory
pf = ParserFactory()
texts = ['namespace x\nstruct S\n    f String\n', 'namespace x\nstruct = ( ?\n', 'namespace x\nunion U\n    a\n    b Int32\n']
t=time.time(); n=0
for i in range(3000):
    for tx in texts:
        p = pf.get_parser(); pf.errors=[]; pf.lexer.errors=[]
        try: p.parse(tx, 'f')
        except Exception: pass
        n+=1
print('prefilter per parse ms', (time.time()-t)/n*1000)
