import time
from stone.frontend.frontend import specs_to_ir
from stone.frontend.parser import ParserFactory
spec = open('/tmp/probe/p5.py').read().split("spec = '''")[1].split("'''")[0].replace('\\\\','\\')
cfg = open('/tmp/probe/p5.py').read().split("cfg = '''")[1].split("'''")[0]
common = open('/tmp/probe/p5.py').read().split("common = '''")[1].split("'''")[0]
t=time.time()
for i in range(20): specs_to_ir([('g', cfg), ('c', common), ('f', spec)])
print('specs_to_ir per call', (time.time()-t)/20)
t=time.time()
for i in range(5): ParserFactory()
print('ParserFactory()', (time.time()-t)/5)
pf = ParserFactory()
t=time.time()
for i in range(50):
    p = pf.get_parser(); p.parse(spec, 'f')
print('parse only', (time.time()-t)/50)
t=time.time()
for i in range(200): specs_to_ir([('c', 'namespace a\nstruct S\n    f String\n')])
print('tiny spec', (time.time()-t)/200)
