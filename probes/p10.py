import traceback
from stone.frontend.frontend import specs_to_ir
from stone.frontend.exception import InvalidSpec
def t(name, *texts, show=None):
    try:
        api = specs_to_ir([(f'f{i}.stone', x) for i, x in enumerate(texts)])
        print(f"[{name}] OK", show(api) if show else '')
        return api
    except InvalidSpec as e:
        print(f"[{name}] InvalidSpec: {e.msg!r} line={e.lineno}")
    except BaseException as e:
        tb = traceback.extract_tb(e.__traceback__)[-1]
        print(f"[{name}] ESCAPE {type(e).__name__}: {e}  @ {tb.filename.split('/')[-1]}:{tb.lineno}")
H='namespace ns\n'
T='struct T\n    g String\n    example default\n        g = "x"\n'
t('ex via alias to list of struct', H+T+'alias L = List(T)\nstruct S\n    f L\n    example default\n        f = [default]\n')
t('ex via alias to struct', H+T+'alias A = T\nstruct S\n    f A\n    example default\n        f = default\n', show=lambda a: dict(a.namespaces['ns'].data_type_by_name['S'].get_examples()['default'].value))
t('ex nullable list of struct', H+T+'struct S\n    f List(T)?\n    example default\n        f = [default]\n')
t('ex list of nullable struct', H+T+'struct S\n    f List(T?)\n    example default\n        f = [default, null]\n')
t('ex union ref struct-typed tag by tag name', H+T+'union U\n    a T\n    v\nstruct S\n    u U\n    example default\n        u = a\n')
t('ex union ref void tag by name', H+T+'union U\n    a T\n    v\nstruct S\n    u U\n    example default\n        u = v\n', show=lambda a: dict(a.namespaces['ns'].data_type_by_name['S'].get_examples()['default'].value))
t('ex map alias', H+'alias M = Map(String, Int32)\nstruct S\n    f M\n    example default\n        f = {"a": 1}\n', show=lambda a: dict(a.namespaces['ns'].data_type_by_name['S'].get_examples()['default'].value))
t('doc 4 spaces', H+'struct S\n    "a    b  c"\n    f String\n', show=lambda a: repr(a.namespaces['ns'].data_type_by_name['S'].raw_doc))
t('doc multi-line', H+'struct S\n    "line one\n    line two\n\n    para two"\n    f String\n', show=lambda a: (a.namespaces['ns'].data_type_by_name['S'].raw_doc, a.namespaces['ns'].data_type_by_name['S'].doc))
t('doc escapes', H+'struct S\n    "q\\"q b\\\\b n\\nn t\\tt x\\xx"\n    f String\n', show=lambda a: repr(a.namespaces['ns'].data_type_by_name['S'].raw_doc))
t('float forms', H+'struct S\n    a Float64 = 1.\n    b Float64 = 1e5\n    c Float64 = 1.5e-07\n    d Float64 = -3\n    e Float64 = 1e22\n', show=lambda a: [f.default for f in a.namespaces['ns'].data_type_by_name['S'].fields])
t('float 1e+22', H+'struct S\n    a Float64 = 1e+22\n')
t('float .5', H+'struct S\n    a Float64 = .5\n')
t('bytes default', H+'struct S\n    a Bytes = "abc"\n', show=lambda a: repr(a.namespaces['ns'].data_type_by_name['S'].fields[0].default))
t('timestamp default', H+'struct S\n    a Timestamp("%Y") = "2020"\n', show=lambda a: repr(a.namespaces['ns'].data_type_by_name['S'].fields[0].default))
t('bool default', H+'struct S\n    a Boolean = true\n')
t('int default for bool', H+'struct S\n    a Boolean = 1\n')
t('bool default for int', H+'struct S\n    a Int32 = true\n', show=lambda a: repr(a.namespaces['ns'].data_type_by_name['S'].fields[0].default))
t('empty struct no doc', H+'struct S\nstruct T\n    f String\n')
t('empty struct w doc', H+'struct S\n    "d"\nstruct T\n    f String\n')
t('route slash', H+'route a/b(Void,Void,Void)\nroute a_b:2(Void,Void,Void)\n')
t('route slash conflict', H+'route a/b(Void,Void,Void)\nroute a_b(Void,Void,Void)\n')
t('hyphen id', H+'struct S\n    my-field String\n')
t('import after def', 'namespace b\nstruct T\n    g String\n', H+'struct S\n    f b.T\nimport b\n')
t('inline anonymous struct', H+'struct S\n    f T\n        "doc of f"\n        struct\n            g String\n')
t('tab indent', H+'struct S\n\tf String\n')
t('crlf', 'namespace ns\r\nstruct S\r\n    f String\r\n')
t('no trailing newline', H+'struct S\n    f String')
t('trailing spaces', H+'struct S   \n    f String   \n   \n')
t('comment lines misindented', H+'struct S\n  # odd\n    f String # trailing\n        # deeper\n    g String\n')
t('continuation', H+'struct S\n    f String(\n        min_length=1,\n        max_length=2)\nroute r(\n    S,\n    Void,\n    Void)\n')
t('continuation comment', H+'route r(\n    Void, # c\n    Void,\n    Void)\n')
t('attr union tag in cfg', 'namespace stone_cfg\nimport ns\nstruct Route\n    k ns.K = a\n', H+'union K\n    a\n    b\nroute r(Void,Void,Void)\n    attrs\n        k = b\n', show=lambda a: a.namespaces['ns'].routes[0].attrs)
