import sys, os, io, builtins, tempfile, contextlib, traceback
import stone.cli as cli
def run(argv, stdin=None):
    old = sys.argv, sys.stdin
    sys.argv = ['x/stone_cli.py'] + argv
    if stdin is not None:
        class S: buffer = io.BytesIO(stdin.encode())
        sys.stdin = S()
    err = io.StringIO(); out = io.StringIO()
    builtins._REC_API = None
    try:
        with contextlib.redirect_stderr(err), contextlib.redirect_stdout(out):
            cli.main()
        return 0, builtins._REC_API, err.getvalue()
    except SystemExit as e:
        return e.code, None, err.getvalue()
    except BaseException as e:
        return 'ESC '+type(e).__name__+': '+str(e), None, err.getvalue()
    finally:
        sys.argv, sys.stdin = old
d = tempfile.mkdtemp()
cfg = 'namespace stone_cfg\nstruct Route\n    b Bytes = "ab"\n    n Int64 = 1\n    f Float64 = 1.0\n    s String?\n    flag Boolean = false\n    ts Timestamp("%Y")?\n'
a = 'namespace a\n    "the namespace doc"\nroute r1(Void,Void,Void)\n    attrs\n        s = "x"\nroute r2(Void,Void,Void)\n    attrs\n        n = 2\n        flag = true\n        ts = "2020"\nstruct S\n    "mentions namespace in doc"\n    f String\n'
open(d+'/cfg.stone','w').write(cfg); open(d+'/a.stone','w').write(a)
def names(api): return {ns.name: [r.name for r in ns.routes] for ns in api.namespaces.values()}
for f in ['b="ab"', 'n=1', 'n=true', 'flag=1', 'f=1', 'n=1.0', 's=null', 's!=null', 'ts="2020"', 'zz=null', 'zz=1', 'n=1 or n=2 and flag=true', '(n=1 or n=2) and flag=true', 'n=', 'n==1', '', '()', 'n=1 and', "s='x'", 'n = 1 )']:
    code, api, err = run(['-f', f, '-a', ':all', '/tmp/probe/rec.stoneg.py', d+'/out', d+'/cfg.stone', d+'/a.stone'])
    print(repr(f), code, names(api) if api else err.strip()[:120])
# -a unknown, -w unknown
print(run(['-a', 'nope', '/tmp/probe/rec.stoneg.py', d+'/out', d+'/cfg.stone', d+'/a.stone'])[::2])
print(run(['-w', 'nope', '/tmp/probe/rec.stoneg.py', d+'/out', d+'/cfg.stone', d+'/a.stone'])[::2])
code, api, err = run(['-a', 'n', '-a', 's', '/tmp/probe/rec.stoneg.py', d+'/out', d+'/cfg.stone', d+'/a.stone'])
print(code, [f.name for f in api.route_schema.fields], [r.attrs for r in api.namespaces['a'].routes], [f.name for f in api.route_schema.all_fields])
# stdin
code, api, err = run(['/tmp/probe/rec.stoneg.py', d+'/out'], stdin=cfg+a)
print('stdin', code, names(api) if api else err[:300])
code, api, err = run(['/tmp/probe/rec.stoneg.py', d+'/out', '-'], stdin=cfg+'namespace b\nstruct T\n    g String\n')
print('stdin2', code, names(api) if api else err[:300])
