#!/bin/bash
# Regenerate /verif/evidence/*.json: every quick check once, seed 1, against /repo itself.
cd /verif
for i in $(seq -w 1 20); do
  VERIF_SEED=1 ./check C$i --tier quick 2>&1 | grep -E "^(VIOLATION|HARNESS|NOTE|C$i tier|  signature|  what)" | cut -c1-300
done
