#!/venv/bin/python
"""Collect violation signatures over several seeds; optionally add them to known_findings.json.

usage: tools/triage.py C03 --seeds 1 2 3 [--tier quick] [--add] [--only PREFIX]
(--add is a manual, reviewed step: the check itself never writes known_findings.json)
"""
import argparse
import glob
import json
import os
import subprocess
import sys

HERE = os.path.dirname(os.path.dirname(os.path.abspath(__file__)))
KF = os.path.join(HERE, 'known_findings.json')


def main():
    ap = argparse.ArgumentParser()
    ap.add_argument('prop')
    ap.add_argument('--seeds', nargs='*', type=int, default=[1])
    ap.add_argument('--tier', default='quick')
    ap.add_argument('--add', action='store_true')
    ap.add_argument('--only', default='')
    ap.add_argument('--norun', action='store_true')
    args = ap.parse_args()
    prop = args.prop.upper()
    rdir = os.path.join(HERE, 'replays', prop)
    found = {}
    if not args.norun:
        for f in glob.glob(os.path.join(rdir, 'viol_*.json')):
            os.remove(f)
    for seed in ([] if args.norun else args.seeds):
        env = dict(os.environ, VERIF_SEED=str(seed))
        pr = subprocess.run([os.path.join(HERE, 'check'), prop, '--tier', args.tier], env=env,
                            capture_output=True, text=True)
        last = [ln for ln in pr.stdout.split('\n') if ln.startswith(prop + ' tier=')]
        print('seed', seed, 'rc', pr.returncode, last[-1] if last else pr.stdout[-300:] + pr.stderr[-300:])
        for f in glob.glob(os.path.join(rdir, 'viol_*.json')):
            d = json.load(open(f))
            o = found.get(d['signature'])
            if o is None or len(json.dumps(d['human'])) < len(json.dumps(o['human'])):
                found[d['signature']] = d
    if args.norun:
        for f in glob.glob(os.path.join(rdir, 'viol_*.json')):
            d = json.load(open(f))
            found[d['signature']] = d
    kf = json.load(open(KF)) if os.path.exists(KF) else {'findings': []}
    listed = {(k['property'], k['signature']) for k in kf['findings']}
    n_new = 0
    for sig, d in sorted(found.items()):
        if args.only and args.only not in sig:
            continue
        new = (prop, sig) not in listed
        print(('NEW   ' if new else 'listed'), sig)
        print('       ', d['what'][:300])
        if new and args.add:
            human = d['human']
            kf['findings'].append({'property': prop, 'signature': sig, 'status': 'known',
                                   'what_fails': d['what'][:400], 'minimal_input': human})
            n_new += 1
    if args.add:
        with open(KF, 'w') as f:
            json.dump(kf, f, indent=1, default=repr, ensure_ascii=False)
        print('added', n_new)


if __name__ == '__main__':
    main()
