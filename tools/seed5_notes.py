#!/venv/bin/python
"""Fill change / needs / note of the round-5 seeded changes' meta.json (texts condensed from the authors' notes)."""
import json
import os
import sys

HERE = os.path.dirname(os.path.dirname(os.path.abspath(__file__)))
N = {
 'C05_9': ('encode_union decides flatten-vs-nest by `hasattr(definition, "_tag_to_subtype_")` instead of isinstance(validator, StructTree); leaf subtypes inherit that attribute.', 'A union member declared as a leaf subtype of an enumerated-subtypes tree.', ''),
 'C05_10': ('encode_primitive uses base64.encodebytes(...).rstrip(): a line break after every 76 output characters; decoding still works.', 'A Bytes value of 58 bytes or more.', ''),
 'C06_9': ('decode_struct_fields fills a missing field from has_default() only when the validator is a Composite.', 'A struct field typed by an alias of a nullable type, omitted from the document.', ''),
 'C06_10': ('python_types writes `_catch_all = None` on every union without its own catch-all (`else:` instead of `elif not parent`); same change as C06_7 / C07_9.', 'An open union extending an open union.', ''),
 'C07_9': ('(same change as C06_10)', 'An open-union child below the catch-all owner; B adds a tag to the child; lenient decode under A.', ''),
 'C07_10': ('decode_union_dict hoists the unexpected-key loop in front of all non-struct members, so it also runs for Void tags in lenient mode.', 'B gives a Void tag a struct type (fields flattened next to .tag); A decodes leniently.', ''),
 'C13_9': ('encode_map calls encode_primitive directly for primitive value validators, bypassing the redaction hook of encode_sub.', 'A map whose value type is an alias carrying a redactor (redactor on the alias, not the field), should_redact=True.', ''),
 'C13_10': ('python_types builds a fresh validator for an alias of List/Map referenced from another namespace; `_redact` sits only on the alias\'s own validator object.', 'An alias of a list or map carrying the redactor itself, used from a different namespace, should_redact=True.', ''),
 'C18_9': ('_relative_output_path checks containment with full_path.startswith(root_path).', 'A target in a sibling directory whose name starts with the output folder\'s name (../out_v2/x).', ''),
 'C18_10': ('Compiler.build does not create the output folder for a manifest run; copy_to_path decides the destination name by os.path.isdir(dst).', 'A manifest run into a not-yet-existing folder with a backend that copies resources into the output root (swift_types).', ''),
 'C20_9': ('_find_dependencies_recursive records ancestors as seen instead of recursing into parent_type: an ancestor reached upward never has its enumerated subtypes / doc references traversed.', 'A base with enumerated subtypes reached through a whitelisted or referenced subtype rather than a field.', ''),
 'C20_10': ('The alias-dropping pass no longer follows inner aliases and tests alias.data_type.', 'An alias chain of length >= 2 (across namespaces) ending in a removed type.', ''),
}
for a in sys.argv[1:]:
    k, note = a.split('=', 1)
    N[k] = (N[k][0], N[k][1], note)
for k, (change, needs, note) in N.items():
    p = os.path.join(HERE, 'seeded', k, 'meta.json')
    if not os.path.exists(p):
        print('missing', k)
        continue
    m = json.load(open(p))
    m['change'], m['needs'] = change, needs
    if note:
        m['note'] = note
    m['round'] = 5
    json.dump(m, open(p, 'w'), indent=1)
print('ok')
