#!/venv/bin/python
"""Run checks over several seeds against /repo (or SV_REPO) and summarise.

usage: tools/sweep.py --seeds 1 2 3 [--tier quick] [--out DIR] [ID ...]
Writes <out>/sweep.json: per property: rc per seed, wall, new signatures (with replay copies kept in
<out>/replays/<ID>/), known signatures hit, and known entries never hit.  Evidence goes to a scratch
directory so the committed evidence files are not overwritten by sweeps.
"""
import argparse
import json
import os
import shutil
import subprocess
import time

HERE = os.path.dirname(os.path.dirname(os.path.abspath(__file__)))


def main():
    ap = argparse.ArgumentParser()
    ap.add_argument('ids', nargs='*')
    ap.add_argument('--seeds', nargs='*', type=int, default=[1])
    ap.add_argument('--tier', default='quick')
    ap.add_argument('--out', default='/tmp/sv_sweep')
    args = ap.parse_args()
    ids = [i.upper() for i in args.ids] or ['C%02d' % i for i in range(1, 21)]
    os.makedirs(args.out, exist_ok=True)
    known = json.load(open(os.path.join(HERE, 'known_findings.json')))['findings']
    res_path = os.path.join(args.out, 'sweep.json')
    res = json.load(open(res_path)) if os.path.exists(res_path) else {}
    for pid in ids:
        r = res.setdefault(pid, {'runs': {}, 'new': {}, 'known_hit': {}})
        for seed in args.seeds:
            ev = os.path.join(args.out, 'ev_%s_%d' % (pid, seed))
            rp = os.path.join(args.out, 'replays')
            env = dict(os.environ, VERIF_SEED=str(seed), SV_EVIDENCE_DIR=ev, SV_REPLAY_DIR=rp, SV_NO_SHRINK='1')
            t0 = time.time()
            pr = subprocess.run([os.path.join(HERE, 'check'), pid, '--tier', args.tier], env=env,
                                capture_output=True, text=True)
            out = pr.stdout + pr.stderr
            last = [ln for ln in out.split('\n') if ln.startswith(pid + ' tier=')]
            r['runs'][str(seed)] = {'rc': pr.returncode, 'wall': round(time.time() - t0, 1),
                                    'line': last[-1] if last else out[-400:]}
            try:
                cov = json.load(open(os.path.join(ev, pid + '.json')))['coverage']
            except Exception:
                cov = {}
            for s in cov.get('new_violation_signatures', []):
                r['new'].setdefault(s, []).append(seed)
            for s in cov.get('known_signatures_hit', []):
                r['known_hit'].setdefault(s, []).append(seed)
            hs = [ln for ln in out.split('\n') if ln.startswith('HARNESS')]
            print(pid, 'seed', seed, 'rc', pr.returncode, '%.0fs' % (time.time() - t0),
                  'new', len(cov.get('new_violation_signatures', [])), hs[:2], flush=True)
            shutil.rmtree(ev, ignore_errors=True)
        r['known_never_hit'] = sorted(k['signature'] for k in known if k['property'] == pid and
                                      k['status'] == 'known' and k['signature'] not in r['known_hit'])
        with open(res_path, 'w') as f:
            json.dump(res, f, indent=1, sort_keys=True)


if __name__ == '__main__':
    main()
