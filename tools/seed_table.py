#!/venv/bin/python
"""Print the DESIGN.md table of seeded changes from seeded/*/meta.json."""
import glob
import json
import os

HERE = os.path.dirname(os.path.dirname(os.path.abspath(__file__)))
print('| change | what it does | what an input needs | suite | caught by (quick tier, seed 1, final machinery) |')
print('|---|---|---|---|---|')
for p in sorted(glob.glob(os.path.join(HERE, 'seeded', '*', 'meta.json'))):
    m = json.load(open(p))
    d = os.path.basename(os.path.dirname(p))
    # the last run against the final machinery (tools/reeval_all.py) wins over the run at evaluation time
    if m.get('recheck_applies'):
        sigs = m.get('recheck_signatures') or []
        detected = m.get('recheck_detected')
    else:
        sigs = m.get('check_signatures') or []
        detected = m.get('detected_by_quick_check')
    if m.get('status_note') and not detected:
        caught = 'n/a'
    else:
        caught = ('`%s`' % sigs[0][:90] + (' (+%d more)' % (len(sigs) - 1) if len(sigs) > 1 else '')) if detected else '**missed**'
    note = (' — ' + m['note']) if m.get('note') else ''
    print('| %s | %s | %s | %s | %s%s |' % (d, m.get('change', '').replace('|', '\\|'), m.get('needs', '').replace('|', '\\|'),
                                          'passes' if m.get('suite_passes_with_patch') else '?', caught.replace('|', '\\|'), note.replace('|', '\\|')))
