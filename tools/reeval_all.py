#!/venv/bin/python
"""Re-run the quick check of every seeded change against the *current* machinery and tree (the suite /
demonstration confirmation of tools/seed_eval.py is not repeated).  Records recheck_* fields in meta.json.

usage: tools/reeval_all.py [--jobs N] [--seed S] [ID_n ...]"""
import json
import os
import subprocess
import sys
import tempfile
from concurrent.futures import ThreadPoolExecutor

HERE = os.path.dirname(os.path.dirname(os.path.abspath(__file__)))


def sh(cmd, cwd=None, env=None, timeout=3600):
    pr = subprocess.run(cmd, shell=True, cwd=cwd, env=env, capture_output=True, text=True, timeout=timeout)
    return pr.returncode, pr.stdout + pr.stderr


def one(name, seed, nproc):
    d = os.path.join(HERE, 'seeded', name)
    meta = json.load(open(os.path.join(d, 'meta.json')))
    pid = meta['property']
    wt = tempfile.mkdtemp(prefix='sv_re_wt_')
    os.rmdir(wt)
    sh('git -C /repo worktree add -f --detach %s HEAD' % wt)
    try:
        rc, o = sh('git apply %s/patch.diff' % d, cwd=wt)
        if rc != 0:
            rc, o = sh('git apply -3 %s/patch.diff' % d, cwd=wt)
        if rc != 0:
            res = {'recheck_applies': False}
        else:
            env = dict(os.environ, SV_REPO=wt, SV_EVIDENCE_DIR=os.path.join(wt, '.sv_ev'), SV_REPLAY_DIR=os.path.join(wt, '.sv_rp'),
                       SV_NO_SHRINK='1', SV_NPROC=str(nproc), VERIF_SEED=str(seed))
            rc_c, o_c = sh('%s/check %s --tier quick' % (HERE, pid), cwd=HERE, env=env)
            sigs = [ln.split('signature: ')[1] for ln in o_c.split('\n') if 'signature: ' in ln][:8]
            res = {'recheck_applies': True, 'recheck_rc': rc_c, 'recheck_detected': rc_c == 1, 'recheck_signatures': sigs,
                   'recheck_seed': seed, 'recheck_base': sh('git -C /repo rev-parse --short HEAD')[1].strip(),
                   'recheck_summary': [ln for ln in o_c.split('\n') if ln.startswith(pid + ' tier=')][-1:]}
        meta.update(res)
        json.dump(meta, open(os.path.join(d, 'meta.json'), 'w'), indent=1)
        print(name, res.get('recheck_applies'), res.get('recheck_detected'), (res.get('recheck_signatures') or [])[:1], flush=True)
    finally:
        sh('git -C /repo worktree remove --force %s' % wt)


def main():
    args = sys.argv[1:]
    jobs, seed = 2, 1
    while args and args[0].startswith('--'):
        if args[0] == '--jobs':
            jobs = int(args[1])
        elif args[0] == '--seed':
            seed = int(args[1])
        args = args[2:]
    names = args or sorted(os.listdir(os.path.join(HERE, 'seeded')))
    with ThreadPoolExecutor(max_workers=jobs) as ex:
        list(ex.map(lambda n: one(n, seed, max(4, 16 // jobs)), names))


if __name__ == '__main__':
    main()
