#!/venv/bin/python
"""Regenerate MANIFEST.json from the property modules that exist."""
import importlib
import json
import os
import sys

HERE = os.path.dirname(os.path.dirname(os.path.abspath(__file__)))
sys.path.insert(0, HERE)
import sv  # noqa

props = [json.loads(l) for l in open(os.path.join(HERE, 'properties.jsonl'))]
m = json.load(open(os.path.join(HERE, 'MANIFEST.json')))
checks = []
na = []
served = []
EXCLUDE = set(sys.argv[1:])
for p in props:
    pid = p['id']
    if pid in EXCLUDE:
        na.append({'property_id': pid, 'reason': 'check under construction in this session; planned per DESIGN.md section 3'})
        continue
    try:
        mod = importlib.import_module('sv.props.%s' % pid.lower())
    except ImportError as e:
        na.append({'property_id': pid, 'reason': 'check not built yet (%s); planned per DESIGN.md section 3' % e})
        continue
    served.append(pid)
    checks.append({
        'property_id': pid,
        'quick_cmd': './check %s --tier quick' % pid,
        'thorough_cmd': './check %s --tier thorough' % pid,
        'evidence_file': '/verif/evidence/%s.json' % pid,
        'replay_cmd_template': './check %s --replay {path}' % pid,
        'engine': 'sv',
        'level_claimed': {
            'category': 'exploration',
            'text': getattr(mod, 'LEVEL_TEXT', 'Generated-input search against an explicit oracle: ' + mod.RULE),
            'design_ref': 'DESIGN.md section 3, %s' % pid,
        },
        'level_note': getattr(mod, 'LEVEL_NOTE', '; '.join(getattr(mod, 'ASSUMPTIONS', [])) or
                              'trusts the reference oracle in /verif/sv and Hypothesis'),
        'technique': getattr(mod, 'TECHNIQUE', 'property-based testing (Hypothesis) with a reference oracle'),
    })
m['checks'] = checks
m['not_applicable'] = na
m['engines'][0]['serves_properties'] = served
json.dump(m, open(os.path.join(HERE, 'MANIFEST.json'), 'w'), indent=1)
print('checks:', served, 'not applicable:', [x['property_id'] for x in na])
