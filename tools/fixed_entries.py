#!/venv/bin/python
"""For every `fix:` commit in /repo: revert it in a scratch worktree, run the checks of the properties
it concerns, and record which violation signatures come back.  Output: /verif/fixed_signatures.json
(read by hand into known_findings.json as status=fixed entries; a fixed entry suppresses nothing).

usage: tools/fixed_entries.py [commit ...]
"""
import json
import os
import subprocess
import sys
import tempfile

HERE = os.path.dirname(os.path.dirname(os.path.abspath(__file__)))
FIXES = [
    ('be06ce1', ['C03', 'C01']), ('c084fda', ['C03', 'C01', 'C11']), ('701300d', ['C03']),
    ('3487c2a', ['C09']), ('788575f', ['C09', 'C10', 'C14']), ('4d6d7c7', ['C09', 'C02']),
    ('64febe9', ['C06']), ('c3d6db8', ['C06']), ('93aff12', ['C06']), ('d33142c', ['C08']),
    ('c31bc57', ['C10']), ('c7afa9a', ['C13']), ('a6ef8e8', ['C14']), ('5c0eddf', ['C11']),
    ('833c1d5', ['C11', 'C02']), ('ff97632', ['C11', 'C12']), ('fd7eaa7', ['C12']), ('b7f6d7e', ['C13']),
    ('e4e8f61', ['C17', 'C16']), ('f09c9e1', ['C19']), ('a5ca629', ['C20']), ('33f82c3', ['C20']),
    ('d288eda', ['C17']),
    ('ddee3fa', ['C03']), ('573ac1a', ['C03']), ('53363e5', ['C03']), ('194f6ce', ['C03']), ('b520a1c', ['C03']),
    ('0ae0870', ['C03']), ('397c88e', ['C03']), ('f2259bd', ['C03']), ('be0adc5', ['C03', 'C01']),
    ('fbc0946', ['C03']), ('f6c0412', ['C03']), ('753f3a4', ['C03']), ('479eebc', ['C03']),
    ('7f2b980', ['C01', 'C03']), ('8d3c092', ['C03']), ('5d445c8', ['C03']), ('9f8d30f', ['C03']),
    ('20f0a5d', ['C03']), ('ad921fb', ['C03']),
    ('123de53', ['C06']), ('f65b540', ['C03']), ('f4fd752', ['C03', 'C01']), ('c3264f7', ['C03']), ('293065b', ['C03']), ('758bfa3', ['C01']), ('e2934b0', ['C09']), ('bb7a193', ['C09']), ('9f98510', ['C02', 'C03']), ('7299f70', ['C03', 'C10', 'C01']), ('440c077', ['C10']),
]


def sh(cmd, cwd=None, env=None, timeout=3600):
    pr = subprocess.run(cmd, shell=True, cwd=cwd, env=env, capture_output=True, text=True, timeout=timeout)
    return pr.returncode, pr.stdout + pr.stderr


def main():
    want = sys.argv[1:]
    outp = os.path.join(HERE, 'fixed_signatures.json')
    res = json.load(open(outp)) if os.path.exists(outp) else {}
    for commit, props in FIXES:
        if want and commit not in want:
            continue
        wt = tempfile.mkdtemp(prefix='sv_fix_wt_')
        os.rmdir(wt)
        sh('git -C /repo worktree add -f --detach %s HEAD' % wt)
        try:
            rc, o = sh('git revert --no-commit %s' % commit, cwd=wt)
            entry = {'subject': sh('git -C /repo log -1 --format=%%s %s' % commit)[1].strip(), 'reverts_cleanly': rc == 0,
                     'checks': {}}
            if rc != 0:
                entry['revert_output'] = o[-400:]
                sh('git revert --abort', cwd=wt)
            else:
                for pid in props:
                    env = dict(os.environ, SV_REPO=wt, SV_EVIDENCE_DIR=os.path.join(wt, '.sv_ev'),
                               SV_REPLAY_DIR=os.path.join(wt, '.sv_rp'), SV_NO_SHRINK='1')
                    rc_c, o_c = sh('%s/check %s --tier quick' % (HERE, pid), cwd=HERE, env=env)
                    sigs = sorted(set(ln.split('signature: ')[1] for ln in o_c.split('\n') if 'signature: ' in ln))
                    try:
                        ev = json.load(open(os.path.join(wt, '.sv_ev', pid + '.json')))
                        known_hit = ev['coverage'].get('known_signatures_hit', [])
                    except Exception:
                        known_hit = []
                    entry['checks'][pid] = {'rc': rc_c, 'signatures': sigs, 'known_signatures_hit': known_hit}
                    print(commit, pid, rc_c, sigs[:4], flush=True)
            res[commit] = entry
            with open(outp, 'w') as f:
                json.dump(res, f, indent=1, sort_keys=True)
        finally:
            sh('git -C /repo worktree remove --force %s' % wt)


if __name__ == '__main__':
    main()
