#!/venv/bin/python
"""Fill change / needs / note of the round-4 seeded changes' meta.json (texts condensed from the authors' NOTES)."""
import json
import os

HERE = os.path.dirname(os.path.dirname(os.path.abspath(__file__)))
ENV = ('IRGenerator._resolve_type looks qualified references up in a new local environment variable but still passes the referring '
       'namespace\'s `env` to the on-demand population of a forward-referenced parent, so the parent\'s members resolve in the wrong namespace.')
N = {
 'C01_7': (ENV, 'A struct extending other_ns.Parent, the importing namespace\'s file listed first, and Parent having a field typed by a symbol of its own namespace (a same-named symbol in both namespaces binds silently).', ''),
 'C01_8': ('_populate_examples lost its second namespace loop: raw examples are added and computed namespace by namespace.', 'An example referring to an example label of a struct in an imported namespace, the importing namespace listed first.', ''),
 'C02_7': (ENV, 'as C01_7; C02 itself only sees the silent mis-binding (same type name in both namespaces), the refusal is C01\'s.',
           'reported by C01 (`refused`) and C11 (layout); C02\'s own comparison needs the same type name in both namespaces and did not meet it at seed 1'),
 'C02_8': ('linearize_data_types places `parent, child` without recursing, so a grandparent is no longer placed before its grandchild\'s parent.', 'An inheritance chain of depth >= 2 in one namespace whose most derived type sorts before its parent and grandparent.', ''),
 'C03_7': ('_validate_types_behind_aliases moved after _populate_examples.', 'An alias of a nullable union, a struct field of that alias type with a tag default, and an example of the struct that omits the field: AttributeError from the example pass.',
           'missed at first: catalogue variant default_on_nullable|via-alias-union (with an example) added'),
 'C03_8': ('_merge_patches checks existence through _item_by_canonical_name but fetches the definition from data_type_by_name[name].', '`patch struct X` where X names an alias / route / annotation, or matches a struct only up to case and underscores: KeyError.', ''),
 'C04_7': ('python_types emits `Child._tagmap = Parent._tagmap` followed by `.update(...)`: all descendants of a union write into one shared dict.', 'Two unions extending the same parent that each declare a member of the same name but a different type.',
           'missed by C04 at seed 1 (reported by C08 `rejected-valid|union`): generator now prefers parents that already have a child and re-uses sibling tag names'),
 'C04_8': ('decode_union_dict takes obj[tag] as the struct when that value is an object.', 'A plain-struct union member whose struct has a set field named like the tag whose encoding is an object.', ''),
 'C05_7': ('encode_struct reads the field table from type(value) instead of the declared validator.', 'An instance of a derived struct in a position declared as its parent struct.',
           'needed instances of descendant classes in parent-typed positions, added to the value generator in this round before the change was evaluated'),
 'C05_8': ('(same change as C05_5: isoformat fast path in _strftime)', 'as C05_5', ''),
 'C06_7': ('python_types writes `_catch_all` on every union class (`else:` instead of `elif not parent`).', 'An open union extending an open union.', ''),
 'C06_8': ('Struct.validate_fields_only memoises the required-field names on the definition class and finds the parent\'s memo through the MRO.', 'A child struct adding a required field, an ancestor value checked earlier in the same process, a child document omitting the child\'s required field.', ''),
 'C07_7': ('(close to C07_3) `_catch_all` falls back one level only.', 'An open-union chain of depth >= 2 below the catch-all owner; a tag added to the deepest union; lenient decode under A.',
           'missed at seed 1 after other generator changes had shifted the random stream - the earlier detection had been luck: add_tag now prefers the deepest unions and the quick tier runs 1400 pairs; caught at seeds 1-4'),
 'C07_8': ('(close to C09_1) struct field defaults are emitted in the reflection pass, before later unions\' void-tag instances exist.', 'B adds a union-typed field with a tag default, union in the same namespace, struct name sorting before the union\'s.',
           'missed at first: C07 compared set/unset state only; it now reads every new defaulted field on the new peer, and tag-default fields are among the edits'),
 'C08_7': ('Attribute.__set__ returns early when the new value == the held one.', 'A second assignment of an equal value of the wrong type (1 over True, 3.0 over 3, [1.0] over [1]).',
           'needed the `badeq` step of C08\'s histories, added in this round before the change was evaluated'),
 'C08_8': ('Union.__init__ memoises tag -> validator in a per-class dict found through inheritance (hasattr), so all descendants of a union share one table keyed by tag name.', 'Two unions extending the same ancestor with a same-named member of different type, both constructed in one process.',
           'missed at first: sibling unions sharing a tag name were 2% of specs; generator bias raised and C08 constructs both members of every such pair'),
 'C09_7': ('python_types re-exports an alias\'s class under the fully unwrapped target\'s qualified name.', 'An alias chain across three namespaces where the first never references the third directly.',
           'missed at first: alias_nesting_bias enabled for C09'),
 'C09_8': ('The `import datetime` decision uses a lazy filter object computed once per backend run; the first module exhausts it.', 'A Timestamp route attribute used by a route in a namespace that is not the alphabetically first.',
           'missed at first: its signature was still listed as a *known* finding although bb7a193 had repaired the defect - repaired findings are now turned into `fixed` entries at once'),
 'C10_7': ('Struct._compute_example_flat_helper returns a memoised Example that _compute_example_enumerated_subtypes later mutates (adds .tag).', 'An enumerated-subtypes root with examples on root and subtype, the root\'s example computed after the subtype\'s.', ''),
 'C10_8': ('python_types spells a tag default with the class of the union behind the alias but decides the namespace prefix from the alias.', 'A tag default on a field typed by an alias declared in another namespace than its union.',
           'reported by C09 (`import|NameError`): C10 hands generated modules that do not import to C09; with a same-named local union C10\'s default read-back would see it'),
 'C11_7': (ENV, 'as C01_7 (file order).', ''),
 'C11_8': ('(same change as C11_2 / C11_4: lexer t_RPAR begin() instead of pop_state)', 'as C11_2', ''),
 'C12_7': ('ImportTracker keeps ad-hoc imports in a list deduplicated through a set that clear() never resets; the tracker is a class attribute.', 'python_type_stubs on a spec with a Timestamp after an earlier run of the same backend in the same process on something with a Timestamp.', ''),
 'C12_8': ('(same change as C12_1 / C12_4)', 'as C12_1', ''),
 'C13_7': ('encode_union unwraps a Nullable member validator before the encode_sub call that carries the redaction hook.', 'A nullable union tag annotated directly with a redactor, non-null value, should_redact=True.', ''),
 'C13_8': ('python_types passes omitted-caller names through fmt_var when naming the permission tables; the runtime reads them under the raw name.', 'An Omitted("teamAdmin") / "Internal" / "ADMIN" / "x__y": any caller name fmt_var changes.',
           'missed at first: permission names were all lower_snake; the pool now holds any identifier-shaped name'),
 'C14_7': ('python_client takes the namespace used to spell tag defaults once from the argument struct.', 'An argument-struct field (own or inherited) with a tag default whose union lives in another namespace than the struct.',
           'missed at first: C14 now adds such fields (directly and through an alias declared in the struct\'s namespace) to argument structs and their ancestors; this also exposed and repaired a genuine defect (886ccdc)'),
 'C14_8': ('The `import warnings` decision re-assigns its list per namespace: only the alphabetically last namespace counts.', '>= 2 namespaces, a deprecated route in one of them, none in the last.', ''),
 'C15_7': ('The stub backend memoises PEP 484 spellings under (namespace name, data type) in a class-level dict; the mapping callbacks that register imports are skipped on a hit.', 'The same Api object rendered twice in one process.',
           'missed by C15 at first (reported by C12\'s histories through a shared-Api step): C15 now runs the stub backend a second time on the same API description and compares'),
 'C15_8': ('(same change as C16_1 for stubs) namespaces referenced only through aliases lose their import.', 'A namespace whose references into another namespace all go through that namespace\'s aliases.', ''),
 'C16_7': ('js_helpers.fmt_obj gets functools.lru_cache: True/1.0 and False/0.0 share a cache key.', 'A Boolean attribute value and a Float64 value 0.0 / 1.0 of matching truthiness in one process.', ''),
 'C16_8': ('(same change as C16_1)', 'as C16_1', ''),
 'C17_7': ('swift_types swaps the two escaping passes of a String pattern.', 'A String pattern containing a double quote.', 'missed at first: no curated pattern contained a quoting character; `[^"]+` added'),
 'C17_8': ('obj_c_types hoists a default import list to module level; _get_imports_m appends to the list it is given.', 'Two obj_c_types builds in one process, the earlier spec having a type the later one lacks.',
           'reported by C12\'s histories (`obj_c_types|history:sequence`); C17 runs each backend once per process'),
 'C18_7': ('(same change as C18_3: commonprefix containment)', 'as C18_3', ''),
 'C18_8': ('output_buffer_to_string returns the joined buffer unformatted when it holds no `{`, while emit_raw doubles both braces.', 'A file whose whole buffer has a `}` and no `{`.', ''),
 'C19_7': ('(same change as C19_3)', 'as C19_3', ''),
 'C19_8': ('FilterExprParser.parse builds a fresh lexer per call but still merges the errors of the lexer created in __init__.', 'A filter malformed only by characters outside the token set.', ''),
 'C20_7': ('A doc-dependency helper skips any docstring *text* it has already handled, whatever namespace it lives in.', 'Two namespaces with a same-named type and the identical doc text carrying an unqualified reference to it.',
           'missed at first: C20 now plants twin names and doc texts in two namespaces of one spec out of three'),
 'C20_8': ('The `retained` set of the alias-pruning step is filled inside the per-namespace loop.', 'A used alias whose target type lives in another namespace and whose spec file is listed before the target\'s.',
           'missed at first: C20 compiled the files in model order, in which a namespace only imports earlier ones; the file order is now drawn'),
}
for k, (change, needs, note) in N.items():
    p = os.path.join(HERE, 'seeded', k, 'meta.json')
    if not os.path.exists(p):
        print('missing', k)
        continue
    m = json.load(open(p))
    m['change'], m['needs'] = change, needs
    if note:
        m['note'] = note
    m['round'] = 4
    json.dump(m, open(p, 'w'), indent=1)
print('ok')
