#!/venv/bin/python
"""Evaluate seeded mutants: confirm each (suite passes, demo fails with / passes without the patch),
run the property's check against it, store it under /verif/seeded/<ID>_<n>/.

usage: tools/seed_eval.py <src_dir> [--offset K] [ID ...]   (stored as <ID>_<n+K>)      src_dir contains <ID>/patchN.diff, demoN.py, NOTES.md
"""
import json
import os
import shutil
import subprocess
import sys
import tempfile

HERE = os.path.dirname(os.path.dirname(os.path.abspath(__file__)))
PY = '/venv/bin/python'


def sh(cmd, cwd=None, env=None, timeout=3600):
    pr = subprocess.run(cmd, shell=True, cwd=cwd, env=env, capture_output=True, text=True, timeout=timeout)
    return pr.returncode, pr.stdout + pr.stderr


def main():
    src = sys.argv[1]
    args = sys.argv[2:]
    offset = 0
    if args and args[0] == '--offset':
        offset = int(args[1])
        args = args[2:]
    ids = args or sorted(d for d in os.listdir(src) if d.startswith('C') and os.path.isdir(os.path.join(src, d)))
    for pid in ids:
        for n in (1, 2, 3, 4):
            patch = os.path.join(src, pid, 'patch%d.diff' % n)
            demo = os.path.join(src, pid, 'demo%d.py' % n)
            if not os.path.exists(patch):
                continue
            only = os.environ.get('ONLY')
            if only and '%s_%d' % (pid, n + offset) not in only.split(','):
                continue
            out = os.path.join(HERE, 'seeded', '%s_%d' % (pid, n + offset))
            meta = {'property': pid, 'source': 'independent sub-agent given only the property text and a scratch worktree',
                    'base_commit': sh('git -C /repo rev-parse --short HEAD')[1].strip()}
            wt = tempfile.mkdtemp(prefix='sv_seed_wt_')
            os.rmdir(wt)
            sh('git -C /repo worktree add -f --detach %s HEAD' % wt)
            try:
                rc, o = sh('git apply %s' % patch, cwd=wt)
                if rc != 0:
                    rc, o = sh('git apply -3 %s' % patch, cwd=wt)
                    meta['applied'] = '3way' if rc == 0 else 'no'
                else:
                    meta['applied'] = 'clean'
                if rc != 0:
                    meta['status'] = 'patch does not apply to the current tree (overlaps a fix: commit); not evaluated'
                    print(pid, n, meta['status'])
                else:
                    rc, o = sh('git diff HEAD > %s/applied.diff' % wt, cwd=wt)
                    rc_t, o_t = sh('%s -m pytest -q -x -p no:cacheprovider --timeout=900' % PY, cwd=wt)
                    meta['suite_passes_with_patch'] = rc_t == 0
                    meta['suite_tail'] = o_t.strip().split('\n')[-1][:200]
                    rc_d, o_d = sh('%s %s' % (PY, demo), cwd=wt, timeout=1200)
                    meta['demo_fails_with_patch'] = rc_d != 0
                    meta['demo_output_with_patch'] = o_d[-600:]
                    env = dict(os.environ, SV_REPO=wt, SV_EVIDENCE_DIR=os.path.join(wt, '.sv_ev'),
                               SV_REPLAY_DIR=os.path.join(wt, '.sv_rp'), SV_NO_SHRINK='1')
                    rc_c, o_c = sh('%s/check %s --tier quick' % (HERE, pid), cwd=HERE, env=env)
                    meta['check_rc'] = rc_c
                    meta['check_signatures'] = [ln.split('signature: ')[1] for ln in o_c.split('\n') if 'signature: ' in ln][:12]
                    meta['check_summary'] = [ln for ln in o_c.split('\n') if ln.startswith(pid + ' tier=')][-1:] or [o_c[-300:]]
                    meta['detected_by_quick_check'] = rc_c == 1
                    os.makedirs(out, exist_ok=True)
                    shutil.copy(os.path.join(wt, 'applied.diff'), os.path.join(out, 'patch.diff'))
                    sh('git reset -q --hard HEAD && git clean -fdq', cwd=wt)
                    rc_d0, o_d0 = sh('%s %s' % (PY, demo), cwd=wt, timeout=1200)
                    meta['demo_passes_without_patch'] = rc_d0 == 0
                    print(pid, n, 'applied', meta['applied'], 'suite', meta['suite_passes_with_patch'], 'demo fail/pass',
                          meta['demo_fails_with_patch'], meta['demo_passes_without_patch'], 'detected', meta['detected_by_quick_check'],
                          meta['check_signatures'][:2], flush=True)
                os.makedirs(out, exist_ok=True)
                if not os.path.exists(os.path.join(out, 'patch.diff')):
                    shutil.copy(patch, os.path.join(out, 'patch.diff'))
                if os.path.exists(demo):
                    shutil.copy(demo, os.path.join(out, 'demo.py'))
                notes = os.path.join(src, pid, 'NOTES.md')
                if os.path.exists(notes):
                    shutil.copy(notes, os.path.join(out, 'NOTES_from_author.md'))
                meta['what_was_run'] = ('git apply in a scratch worktree of /repo HEAD; pytest -q -x (whole suite); demo.py with cwd=worktree '
                                        '(must exit non-zero); git checkout; demo.py again (must exit 0); SV_REPO=<worktree> ./check %s --tier quick' % pid)
                with open(os.path.join(out, 'meta.json'), 'w') as f:
                    json.dump(meta, f, indent=1)
            finally:
                sh('git -C /repo worktree remove --force %s' % wt)


if __name__ == '__main__':
    main()
