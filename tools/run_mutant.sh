#!/bin/bash
# usage: tools/run_mutant.sh <patch.diff> <ID> [<ID>...]   (env TIER=quick|thorough, VERIF_SEED)
# Applies the patch to a scratch worktree of /repo (never to /repo itself), runs the checks
# against it through SV_REPO, prints the verdict lines, removes the worktree.
set -u
patch=$(readlink -f "$1"); shift
wt=$(mktemp -d /tmp/sv_mut_XXXXXX)
rmdir "$wt"
git -C /repo worktree add -f --detach "$wt" HEAD >/dev/null 2>&1 || { echo "worktree failed"; exit 2; }
if ! git -C "$wt" apply "$patch" 2>/dev/null; then
  if ! git -C "$wt" apply -3 "$patch" 2>/dev/null; then echo "PATCH-DOES-NOT-APPLY $patch"; git -C /repo worktree remove --force "$wt"; exit 3; fi
fi
out=$(mktemp -d /tmp/sv_mut_out_XXXXXX)
for id in "$@"; do
  SV_REPO="$wt" SV_EVIDENCE_DIR="$out/evidence" SV_REPLAY_DIR="$out/replays" SV_NO_SHRINK=${SV_NO_SHRINK:-1} \
    /verif/check "$id" --tier "${TIER:-quick}" 2>&1 | grep -E "^(VIOLATION|  signature|$id tier|HARNESS)" | cut -c1-300
done
git -C /repo worktree remove --force "$wt"
rm -rf "$out"
