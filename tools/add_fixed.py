#!/venv/bin/python
"""Append a status=fixed entry to known_findings.json.
usage: tools/add_fixed.py <PROP> <commit> <signature> <what failed>"""
import json
import os
import sys

HERE = os.path.dirname(os.path.dirname(os.path.abspath(__file__)))
prop, commit, sig, what = sys.argv[1:5]
p = os.path.join(HERE, 'known_findings.json')
k = json.load(open(p))
for e in k['findings']:
    if e['property'] == prop and e['signature'] == sig and e['status'] == 'fixed' and e.get('commit') == commit:
        sys.exit('already there')
# a fixed defect is no longer a known finding
k['findings'] = [e for e in k['findings'] if not (e['property'] == prop and e['signature'] == sig and e['status'] == 'known')]
k['findings'].append({'property': prop, 'signature': sig, 'status': 'fixed', 'commit': commit, 'what_fails': what,
                      'line': 'fixed: property=%s %s %s' % (prop, commit, what)})
json.dump(k, open(p, 'w'), indent=1)
print('added')
