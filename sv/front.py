"""Running the frontend under observation."""
import re
import signal


class Hang(BaseException):
    pass


def _alarm(signum, frame):
    raise Hang()


def compile_specs(specs, timeout=20, **kw):
    """-> (kind, payload): ('api', Api) | ('invalid', InvalidSpec) | ('escape', exception)
    | ('hang', None).  Uses the real public entry point."""
    from stone.frontend.frontend import specs_to_ir
    from stone.frontend.exception import InvalidSpec
    old = signal.signal(signal.SIGALRM, _alarm)
    signal.setitimer(signal.ITIMER_REAL, timeout)
    try:
        try:
            api = specs_to_ir(list(specs), **kw)
            return 'api', api
        finally:
            signal.setitimer(signal.ITIMER_REAL, 0)
    except InvalidSpec as e:
        return 'invalid', e
    except Hang:
        return 'hang', None
    except RecursionError as e:
        return 'escape', e
    except Exception as e:
        return 'escape', e
    except SystemExit as e:
        return 'escape', e
    finally:
        signal.setitimer(signal.ITIMER_REAL, 0)
        signal.signal(signal.SIGALRM, old)


_Q = re.compile(r"'[^']*'|\"[^\"]*\"")
_NUM = re.compile(r'-?\d+(\.\d+)?(e-?\d+)?')
_PATHREF = re.compile(r'\([^()]*:\d+\)')


def msg_template(msg):
    """Error message with names and numbers abstracted (root-cause key for refusals)."""
    m = _PATHREF.sub('(LOC)', msg)
    m = _Q.sub('Q', m)
    m = _NUM.sub('N', m)
    return m[:90]


def check_invalid_shape(e, paths):
    """C03: spec error carries a non-empty message and, when it names a file, an input path."""
    bad = []
    if not isinstance(e.msg, str) or not e.msg.strip():
        bad.append('empty message')
    if e.path is not None and e.path not in paths:
        bad.append('path %r is not an input path' % (e.path,))
    if e.lineno is not None and not isinstance(e.lineno, int):
        bad.append('lineno %r' % (e.lineno,))
    return bad
