"""Type-directed value strategies (boundary-biased) and spec-literal conversion."""
import base64
import datetime
import math

from hypothesis import strategies as st

from . import model as M

SAFE_ALPHABET = st.characters(
    codec='utf-8', exclude_categories=('Cs', 'Cc', 'Zl', 'Zp'), exclude_characters='\x85\x1c\x1d\x1e')
# "wild": everything a JSON string can carry, incl. control characters and exotic separators
WILD_ALPHABET = st.characters(codec='utf-8', exclude_categories=('Cs',))
INTERESTING = ['', ' ', 'a', 'John Doe', '"', '\\', 'say "hi" \\', "it's", '{0}', '%s', 'é', '数',
               '\U0001F600', 'a b  c', 'namespace', 'null', 'true', '0', '\t', 'x' * 40]


def _clip_len(params, lo=0, hi=None):
    a = params.get('min_length')
    b = params.get('max_length')
    lo = max(lo, a if a is not None else 0)
    if b is not None:
        hi = b if hi is None else min(hi, b)
    return lo, hi


def pattern_strategy(pat, lo, hi):
    """Strings fully matching one of gen.PATTERNS with length in [lo, hi]."""
    from .gen import PATTERNS
    kind = {p: k for p, _, _, k in PATTERNS}[pat]
    plo, phi = {p: (a, b) for p, a, b, _ in PATTERNS}[pat]
    lo = max(lo, plo)
    if phi is not None:
        hi = phi if hi is None else min(hi, phi)
    if hi is not None and hi < lo:
        return None
    cap = hi if hi is not None else lo + 20

    def txt(alpha, a=lo, b=cap):
        return st.text(alpha, min_size=max(a, 0), max_size=max(b, a, 0))
    if kind == 'lower':
        return txt('abcxyz')
    if kind == 'digit':
        return st.text('0123456789', min_size=3, max_size=3)
    if kind == 'hex':
        return txt('0123456789abcdef')
    if kind == 'pathlike':
        if cap == 0:
            return st.just('')
        body = st.text(st.sampled_from(['a', '/', ' ', '\n', 'é', '.', '"']),
                       min_size=max(lo - 1, 0), max_size=max(cap - 1, 0)).map(lambda s: '/' + s)
        return st.one_of(st.just(''), body) if lo == 0 else body
    if kind == 'email':
        part = st.text('abc.x-', min_size=1, max_size=4)
        return st.tuples(part, part, part).map(lambda p: '%s@%s.%s' % p).filter(
            lambda s: lo <= len(s) <= cap)
    if kind == 'abcd':
        return st.sampled_from(['ab', 'cd'])
    if kind == 'capword':
        return st.tuples(st.sampled_from('ABZ'), st.text('abz', min_size=max(1, lo - 1),
                                                         max_size=max(1, min(5, cap - 1)))).map(''.join)
    if kind == 'idcolon':
        return st.text(st.sampled_from(['a', '1', ' ', ':', 'é', '"', '\\']), min_size=max(1, lo - 3),
                       max_size=max(1, cap - 3)).map(lambda s: 'id:' + s)
    if kind == 'noquote':
        return txt(st.sampled_from(['a', 'b', ' ', "'", '\\', 'é']), a=max(lo, 1))
    raise AssertionError(kind)


def string_strategy(params, for_spec=False, wild=False):
    lo, hi = _clip_len(params)
    pat = params.get('pattern')
    if pat:
        s = pattern_strategy(pat, lo, hi)
        if s is None:
            return None
        return s
    alpha = WILD_ALPHABET if wild else SAFE_ALPHABET
    cap = hi if hi is not None else max(lo + 12, 12)
    base = st.text(alpha, min_size=lo, max_size=cap)
    fixed = [s for s in INTERESTING + (['a    b', 'x' + ' ' * 8 + 'y', 'tail\x85', 'a\x0cb', 'a\u2028b'] if wild else [])
             if lo <= len(s) <= cap]
    bound = []
    if hi is not None:
        bound.append(st.text(alpha, min_size=hi, max_size=hi))
    if lo:
        bound.append(st.text(alpha, min_size=lo, max_size=lo))
    out = st.one_of(*( [st.sampled_from(fixed)] if fixed else []), base, *bound)
    if not wild:
        # 4-space runs are eaten by the lexer's indentation stripping (DESIGN §5 #18) and are
        # generated only in wild mode
        out = out.filter(lambda s: '    ' not in s)
    return out


def int_strategy(name, params):
    lo, hi = M.INT_RANGES[name]
    a = params.get('min_value', lo)
    b = params.get('max_value', hi)
    a, b = max(a, lo), min(b, hi)
    if a > b:
        return None
    edge = sorted({v for v in (a, b, a + 1, b - 1, 0, 1, -1, 2**31 - 1, 2**31, 2**53, 2**53 + 1)
                   if a <= v <= b})
    return st.one_of(st.sampled_from(edge), st.integers(a, b))


def float_strategy(name, params, for_spec=False):
    lo = -M.FLOAT32_MAX if name == 'Float32' else -1.7976931348623157e308
    hi = -lo
    a = params.get('min_value')
    b = params.get('max_value')
    a = lo if a is None else max(float(a), lo)
    b = hi if b is None else min(float(b), hi)
    if a > b:
        return None
    edge = sorted({v for v in (a, b, 0.0, -0.0, 0.5, -1.5, 1.0, 1e22, 5e-324, 1e-5, 123456789.125)
                   if a <= v <= b}, key=lambda v: (v, math.copysign(1, v)))
    lo_i, hi_i = max(-2**40, math.ceil(a)), min(2**40, math.floor(b))
    return st.one_of(st.sampled_from(edge),
                     st.floats(a, b, allow_nan=False, allow_infinity=False),
                     st.integers(lo_i, hi_i).map(float) if lo_i <= hi_i else st.nothing())


def truncate_ts(dt, fmt):
    """A timestamp representable in its format: strptime(strftime(x))."""
    return datetime.datetime.strptime(dt.strftime(fmt), fmt)


def timestamp_strategy(fmt):
    base = st.datetimes(min_value=datetime.datetime(1000, 1, 1),
                        max_value=datetime.datetime(9999, 12, 31, 23, 59, 59))
    edge = st.sampled_from([datetime.datetime(1000, 1, 1), datetime.datetime(1970, 1, 1),
                            datetime.datetime(2015, 5, 12, 15, 50, 38),
                            datetime.datetime(9999, 12, 31, 23, 59, 59, 999999),
                            datetime.datetime(2000, 2, 29, 12, 0, 0, 500000)])
    return st.one_of(edge, base).map(lambda d: truncate_ts(d, fmt))


def bytes_strategy():
    return st.one_of(st.sampled_from([b'', b'\x00', b'\xff\xfe', b'hello', bytes(range(256))]),
                     st.binary(max_size=24))


def prim_value_strategy(t, for_spec=False, wild=False):
    """Python values valid for primitive type `t` (None when the type is uninhabited)."""
    assert t[0] == 'prim', t
    name, params = t[1], M.pparams(t)
    if name in M.INTS:
        return int_strategy(name, params)
    if name in M.FLOATS:
        return float_strategy(name, params, for_spec)
    if name == 'Boolean':
        return st.booleans()
    if name == 'String':
        return string_strategy(params, for_spec, wild)
    if name == 'Bytes':
        return bytes_strategy()
    if name == 'Timestamp':
        return timestamp_strategy(params['format'])
    if name == 'Void':
        return st.none()
    raise AssertionError(name)


def to_spec_literal(t, v):
    """Python value -> the literal a spec would write for it (defaults, examples, attrs)."""
    name = t[1]
    if name == 'Bytes':
        return base64.b64encode(v).decode('ascii')
    if name == 'Timestamp':
        return v.strftime(M.pparams(t)['format'])
    return v


# =======================================================================================
# composite abstract values
#
#   primitive          -> python value (int/float/str/bytes/bool/datetime/None)
#   nullable           -> None | inner
#   list               -> [abstract, ...]          map -> {str: abstract}
#   struct             -> ('struct', (ns, name), {field: abstract})   (only *set* fields)
#   union              -> ('union', (ns, name), tag, abstract | None)

class Costs:
    """Minimal nesting cost of a value of each user type (fixpoint); guarantees that value
    generation terminates on recursive types."""

    INF = 10 ** 6

    def __init__(self, idx):
        self.idx = idx
        self.cost = {}
        changed = True
        for n, d in idx.types():
            self.cost[(n, d['name'])] = self.INF
        while changed:
            changed = False
            for n, d in idx.types():
                c = self._type_cost(n, d)
                if c < self.cost[(n, d['name'])]:
                    self.cost[(n, d['name'])] = c
                    changed = True

    def texpr(self, t):
        k = t[0]
        if k in ('prim', 'nullable', 'map'):
            return 0
        if k == 'list':
            return 0 if not t[2] else 1 + self.texpr(t[1])
        if k == 'alias':
            return self.texpr(self.idx.get(t[1], t[2])['type'])
        d = self.idx.get(t[1], t[2])
        if d['k'] == 'struct' and d.get('subtypes'):
            return min([self.cost[(t[1], kid)] for _, kid in d['subtypes']['items']] + [self.INF])
        return self.cost[(t[1], t[2])]

    def _type_cost(self, n, d):
        if d['k'] == 'struct':
            c = 0
            for _, _, f in self.idx.struct_all_fields(n, d):
                if not self.idx.is_optional(f):
                    c = max(c, self.texpr(f['type']))
            return min(self.INF, 1 + c)
        best = self.INF
        for _, _, t in self.idx.union_all_tags(n, d, with_other=False):
            best = min(best, 0 if t['type'] is None else self.texpr(t['type']))
        return min(self.INF, 1 + best)


def concrete_structs(idx, ns, d):
    """Classes whose instances are encodable values of struct type (ns, d): the struct itself,
    or the listed leaves when it enumerates subtypes."""
    if d.get('subtypes'):
        return [(ns, idx.get(ns, kid)) for _, kid in d['subtypes']['items']]
    return [(ns, d)]


@st.composite
def value_for(draw, idx, costs, t, fuel=3, wild=False, omit_callers=frozenset(), bias=None, exact_top=False, subclass=False):
    k = t[0]
    if k == 'prim':
        s = prim_value_strategy(t, wild=wild)
        return draw(s)
    if k == 'alias':
        return draw(value_for(idx, costs, idx.get(t[1], t[2])['type'], fuel, wild, omit_callers, bias, False, subclass))
    if k == 'nullable':
        if fuel <= 0 or draw(st.integers(0, 3)) == 0:
            return None
        return draw(value_for(idx, costs, t[1], fuel, wild, omit_callers, bias, False, subclass))
    if k == 'list':
        lo = t[2] or 0
        hi = t[3] if t[3] is not None else lo + 3
        if fuel <= 0:
            n = lo
        else:
            n = draw(st.sampled_from(sorted({lo, hi, min(hi, lo + 1)})))
        return [draw(value_for(idx, costs, t[1], fuel - 1, wild, omit_callers, bias, False, subclass)) for _ in range(n)]
    if k == 'map':
        n = 0 if fuel <= 0 else draw(st.integers(0, 2))
        out = {}
        for _ in range(n):
            key = draw(value_for(idx, costs, t[1], 0, wild))
            out[key] = draw(value_for(idx, costs, t[2], fuel - 1, wild, omit_callers, bias, False, subclass))
        return out
    d = idx.get(t[1], t[2])
    if d['k'] == 'struct':
        cands = [(t[1], d)] if exact_top else concrete_structs(idx, t[1], d)
        cands = sorted(cands, key=lambda c: costs.cost[(c[0], c[1]['name'])])
        hot = [c for c in cands if bias and (c[0], c[1]['name']) in bias.get('subtypes', ())]
        if fuel <= 0:
            cn, cd = cands[0]
        elif hot and draw(st.integers(0, 2)):
            cn, cd = draw(st.sampled_from(hot))
        else:
            cn, cd = draw(st.sampled_from(cands))
        fields = {}
        for _, _, f in idx.struct_all_fields(cn, cd):
            if omitted_for(idx, f, omit_callers):
                continue
            opt = idx.is_optional(f)
            hotf = bias and (cn, cd['name'], f['name']) in bias.get('fields', ()) or \
                (bias and any((n_, s_['name'], f['name']) in bias.get('fields', ()) for n_, s_ in idx.chain(cn, cd)))
            if opt and not (hotf and fuel >= 0 and draw(st.integers(0, 9)) > 0) and (fuel <= 0 or draw(st.booleans())):
                continue
            v = draw(value_for(idx, costs, f['type'], fuel - 1, wild, omit_callers, bias, False, subclass))
            if v is None and idx.is_nullable(f['type']):
                continue          # setting a nullable field to None leaves it unset
            fields[f['name']] = v
        if subclass and not exact_top and not d.get('subtypes') and fuel > 0 and draw(st.integers(0, 5)) == 0:
            # an instance of a (plain) descendant where the struct itself is declared: "subclasses allowed
            # for structs"; it is serialized as the declared type, its own fields are not part of that type
            kids = []
            stack = [(t[1], d)]
            while stack:
                n_, d_ = stack.pop()
                for c in idx.children(n_, d_['name']):
                    kids.append(c)
                    stack.append(c)
            kids = [c for c in kids if costs.cost.get((c[0], c[1]['name']), costs.INF) < costs.INF]
            if kids:
                kn, kd = draw(st.sampled_from(sorted(kids, key=lambda c: (c[0], c[1]['name']))))
                declared = {f['name'] for _, _, f in idx.struct_all_fields(t[1], d)}
                extra = {}
                for _, _, f in idx.struct_all_fields(kn, kd):
                    if f['name'] in declared or omitted_for(idx, f, omit_callers):
                        continue
                    if idx.is_optional(f) and draw(st.booleans()):
                        continue
                    v = draw(value_for(idx, costs, f['type'], min(fuel - 1, 1), wild, omit_callers, None, False, False))
                    if v is None and idx.is_nullable(f['type']):
                        continue
                    extra[f['name']] = v
                return ('struct', (cn, cd['name']), fields, {'as': (kn, kd['name']), 'extra': extra})
        return ('struct', (cn, cd['name']), fields)
    tags = [tg for _, _, tg in idx.union_all_tags(t[1], d, with_other=False)
            if not omitted_for(idx, tg, omit_callers)]
    if not tags:
        return ('union', (t[1], t[2]), None, None)
    if fuel <= 0:
        tags = sorted(tags, key=lambda tg: 0 if tg['type'] is None else costs.texpr(tg['type']))[:1]
    hot = [x for x in tags if bias and any((n_, u_['name'], x['name']) in bias.get('tags', ())
                                            for n_, u_ in idx.chain(t[1], d))]
    if hot and draw(st.integers(0, 2)):
        tg = draw(st.sampled_from(hot))
    else:
        tg = draw(st.sampled_from(tags))
    if tg['type'] is None:
        return ('union', (t[1], t[2]), tg['name'], None)
    return ('union', (t[1], t[2]), tg['name'],
            draw(value_for(idx, costs, tg['type'], fuel - 1, wild, omit_callers, bias, False, subclass)))


def omitted_for(idx, f, callers):
    """Is the member annotated Omitted(c) with c not in `callers` (None = ignore omission)?"""
    if callers is None:
        return False
    for a in f.get('annots') or []:
        d = idx.get(a[0], a[1])
        if d['atype'][1] == 'Omitted' and d['args'][0] not in callers:
            return True
    return False


_NOSLOT = object()


def materialize(pkg, idx, t, v):
    """Abstract value -> instance of the generated classes / plain Python value."""
    k = t[0]
    if k == 'alias':
        return materialize(pkg, idx, idx.get(t[1], t[2])['type'], v)
    if k == 'nullable':
        return None if v is None else materialize(pkg, idx, t[1], v)
    if k == 'prim':
        return v
    if k == 'list':
        return [materialize(pkg, idx, t[1], x) for x in v]
    if k == 'map':
        return {key: materialize(pkg, idx, t[2], x) for key, x in v.items()}
    if v[0] == 'struct':
        ns, name = v[1]
        fields = dict(v[2])
        if len(v) > 3:          # an instance of a descendant class standing in for the declared struct
            ns, name = v[3]['as']
            fields.update(v[3]['extra'])
        d = idx.get(ns, name)
        obj = pkg.cls(ns, name)()
        ftypes = {f['name']: f['type'] for _, _, f in idx.struct_all_fields(ns, d)}
        for fname, fv in fields.items():
            setattr(obj, fname, materialize(pkg, idx, ftypes[fname], fv))
        return obj
    ns, name = v[1]
    d = idx.get(ns, name)
    cls = pkg.cls(ns, name)
    tag = v[2]
    tg = [x for _, _, x in idx.union_all_tags(ns, d) if x['name'] == tag][0]
    if tg['type'] is None:
        return getattr(cls, tag)
    return getattr(cls, tag)(materialize(pkg, idx, tg['type'], v[3]))


def _is_empty_struct_obj(obj):
    names = getattr(type(obj), '_all_field_names_', None)
    return names is not None and not hasattr(obj, '_tag') and \
        all(repr(getattr(obj, '_%s_value' % n, None)) == 'NOT_SET' for n in names)


def same(idx, t, obj, v, path='$', empty_ok=False):
    """Independent structural comparison of a decoded object with an abstract value; returns
    None when equal, else a description of the first difference.  With empty_ok the documented
    ambiguity "null or empty struct" of nullable struct-valued union members is tolerated."""
    if empty_ok:
        return _same_tolerant(idx, t, obj, v, path)
    return _same(idx, t, obj, v, path, False)


def _same_tolerant(idx, t, obj, v, path):
    return _same(idx, t, obj, v, path, True)


def _same(idx, t, obj, v, path, tol):
    same = lambda i, tt, o, vv, p='$': _same(i, tt, o, vv, p, tol)  # noqa: E731
    k = t[0]
    if k == 'alias':
        return same(idx, idx.get(t[1], t[2])['type'], obj, v, path)
    if k == 'nullable':
        if v is None:
            return None if obj is None else '%s: expected None, got %r' % (path, obj)
        if obj is None:
            return '%s: got None, expected a value' % path
        return same(idx, t[1], obj, v, path)
    if k == 'prim':
        if t[1] in M.FLOATS:
            ok = isinstance(obj, (int, float)) and not isinstance(obj, bool) and float(obj) == float(v)
        elif t[1] in M.INTS:
            ok = isinstance(obj, int) and obj == v
        else:
            ok = type(obj) is type(v) and obj == v
        return None if ok else '%s: expected %r, got %r' % (path, v, obj)
    if k == 'list':
        if not isinstance(obj, (list, tuple)) or len(obj) != len(v):
            return '%s: list mismatch %r vs %r' % (path, obj, v)
        for i, (o, x) in enumerate(zip(obj, v)):
            r = same(idx, t[1], o, x, '%s[%d]' % (path, i))
            if r:
                return r
        return None
    if k == 'map':
        if not isinstance(obj, dict) or set(obj) != set(v):
            return '%s: map keys mismatch %r vs %r' % (path, obj, v)
        for key in v:
            r = same(idx, t[2], obj[key], v[key], '%s[%r]' % (path, key))
            if r:
                return r
        return None
    if v[0] == 'struct':
        ns, name = v[1]
        d = idx.get(ns, name)
        if type(obj).__name__ != name:
            return '%s: expected instance of %s, got %s' % (path, name, type(obj).__name__)
        for _, _, f in idx.struct_all_fields(ns, d):
            fname = f['name']
            raw = getattr(obj, '_%s_value' % fname, _NOSLOT)
            is_set = raw is not _NOSLOT and repr(raw) != 'NOT_SET'
            if fname in v[2]:
                if not is_set:
                    return '%s.%s: expected set, is unset' % (path, fname)
                r = same(idx, f['type'], raw, v[2][fname], '%s.%s' % (path, fname))
                if r:
                    return r
            elif is_set:
                return '%s.%s: expected unset, got %r' % (path, fname, raw)
        return None
    ns, name = v[1]
    d = idx.get(ns, name)
    if not hasattr(obj, '_tag'):
        return '%s: expected union instance, got %r' % (path, obj)
    if obj._tag != v[2]:
        return '%s: expected tag %r, got %r' % (path, v[2], obj._tag)
    tg = [x for _, _, x in idx.union_all_tags(ns, d) if x['name'] == v[2]][0]
    if tg['type'] is None:
        return None if obj._value is None else '%s: void tag with value %r' % (path, obj._value)
    if tol and idx.is_nullable(tg['type']):
        b = idx.base(tg['type'])
        if b[0] == 'ref' and idx.get(b[1], b[2])['k'] == 'struct':
            empty_v = v[3] is None or (isinstance(v[3], tuple) and v[3][0] == 'struct' and not v[3][2])
            empty_o = obj._value is None or _is_empty_struct_obj(obj._value)
            if empty_v and empty_o:
                return None
    return same(idx, tg['type'], obj._value, v[3], '%s<%s>' % (path, v[2]))


def value_classes(idx, t, v, depth=0):
    """Shape classes a value exercises (for non-triviality / histograms)."""
    out = set()
    k = t[0]
    if k == 'alias':
        out.add('via_alias')
        return out | value_classes(idx, idx.get(t[1], t[2])['type'], v, depth)
    if k == 'nullable':
        out.add('nullable_none' if v is None else 'nullable_set')
        return out if v is None else out | value_classes(idx, t[1], v, depth)
    if k == 'prim':
        name = t[1]
        if name == 'Bytes':
            out.add('bytes')
        elif name == 'Timestamp':
            out.add('timestamp')
        elif name in M.INTS:
            lo, hi = M.INT_RANGES[name]
            p = M.pparams(t)
            if v in (lo, hi, p.get('min_value'), p.get('max_value')) or abs(v) > 2**53:
                out.add('boundary_int')
        elif name == 'String':
            if any(ord(c) > 127 for c in v):
                out.add('unicode')
            p = M.pparams(t)
            if len(v) in (p.get('min_length'), p.get('max_length')):
                out.add('boundary_len')
        return out
    if k == 'list':
        if depth >= 1:
            out.add('container_depth2')
        for x in v:
            out |= value_classes(idx, t[1], x, depth + 1)
        return out
    if k == 'map':
        if depth >= 1:
            out.add('container_depth2')
        if idx.is_nullable(t[2]):
            out.add('map_of_nullable')
        for x in v.values():
            out |= value_classes(idx, t[2], x, depth + 1)
        return out
    if v[0] == 'struct':
        ns, name = v[1]
        d = idx.get(ns, name)
        if (ns, name) != (t[1], t[2]):
            out.add('enumerated_subtype')
        if d.get('parent'):
            out.add('inherited_fields')
        for _, _, f in idx.struct_all_fields(ns, d):
            if f['name'] in v[2]:
                if idx.is_optional(f):
                    out.add('optional_set')
                out |= value_classes(idx, f['type'], v[2][f['name']], depth)
            elif idx.is_optional(f):
                out.add('optional_unset')
        return out
    ns, name = v[1]
    d = idx.get(ns, name)
    if v[2] is None:
        return out
    owner, tg = [(u, x) for _, u, x in idx.union_all_tags(ns, d) if x['name'] == v[2]][0]
    if owner is not d:
        out.add('inherited_tag')
    if tg['type'] is None:
        out.add('void_tag')
        return out
    b = idx.base(tg['type'])
    if idx.is_nullable(tg['type']):
        out.add('nullable_tag')
    if b[0] == 'ref':
        kd = idx.get(b[1], b[2])
        out.add('struct_tag' if kd['k'] == 'struct' else 'union_of_union')
    return out | value_classes(idx, tg['type'], v[3], depth)


def norm_roundtrip(idx, t, v):
    """The documented normalisations of a JSON round trip: a nullable struct-valued union member
    whose struct serialises to {} comes back as null (json_serializer.rst, "Nullable")."""
    k = t[0]
    if v is None:
        return None
    if k == 'alias':
        return norm_roundtrip(idx, idx.get(t[1], t[2])['type'], v)
    if k == 'nullable':
        return norm_roundtrip(idx, t[1], v)
    if k == 'prim':
        return v
    if k == 'list':
        return [norm_roundtrip(idx, t[1], x) for x in v]
    if k == 'map':
        return {key: norm_roundtrip(idx, t[2], x) for key, x in v.items()}
    if v[0] == 'struct':
        ns, name = v[1]
        d = idx.get(ns, name)
        ft = {f['name']: f['type'] for _, _, f in idx.struct_all_fields(ns, d)}
        return ('struct', v[1], {n: norm_roundtrip(idx, ft[n], x) for n, x in v[2].items()})
    ns, name = v[1]
    d = idx.get(ns, name)
    tg = [x for _, _, x in idx.union_all_tags(ns, d) if x['name'] == v[2]][0]
    if tg['type'] is None or v[3] is None:
        return v
    inner = norm_roundtrip(idx, tg['type'], v[3])
    b = idx.base(tg['type'])
    if idx.is_nullable(tg['type']) and b[0] == 'ref' and isinstance(inner, tuple) and inner[0] == 'struct' \
            and not inner[2] and not idx.get(b[1], b[2]).get('subtypes'):
        inner = None
    return ('union', v[1], v[2], inner)


def is_complete(v):
    """False when a union inside the value has no tag available (all tags omitted for the caller)."""
    if isinstance(v, tuple) and v and v[0] == 'union':
        return v[2] is not None and is_complete(v[3])
    if isinstance(v, tuple) and v and v[0] == 'struct':
        return all(is_complete(x) for x in v[2].values())
    if isinstance(v, list):
        return all(is_complete(x) for x in v)
    if isinstance(v, dict):
        return all(is_complete(x) for x in v.values())
    return True


def has_subclass_instance(v):
    """Does the abstract value hold a descendant-class instance in a parent-typed position?"""
    if isinstance(v, tuple) and v and v[0] == 'struct':
        return len(v) > 3 or any(has_subclass_instance(x) for x in v[2].values())
    if isinstance(v, tuple) and v and v[0] == 'union':
        return has_subclass_instance(v[3])
    if isinstance(v, list):
        return any(has_subclass_instance(x) for x in v)
    if isinstance(v, dict):
        return any(has_subclass_instance(x) for x in v.values())
    return False
