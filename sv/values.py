"""Type-directed value strategies (boundary-biased) and spec-literal conversion."""
import base64
import datetime
import math

from hypothesis import strategies as st

from . import model as M

SAFE_ALPHABET = st.characters(
    codec='utf-8', exclude_categories=('Cs', 'Cc', 'Zl', 'Zp'), exclude_characters='\x85\x1c\x1d\x1e')
# "wild": everything a JSON string can carry, incl. control characters and exotic separators
WILD_ALPHABET = st.characters(codec='utf-8', exclude_categories=('Cs',))
INTERESTING = ['', ' ', 'a', 'John Doe', '"', '\\', 'say "hi" \\', "it's", '{0}', '%s', 'é', '数',
               '\U0001F600', 'a b  c', 'namespace', 'null', 'true', '0', '\t', 'x' * 40]


def _clip_len(params, lo=0, hi=None):
    a = params.get('min_length')
    b = params.get('max_length')
    lo = max(lo, a if a is not None else 0)
    if b is not None:
        hi = b if hi is None else min(hi, b)
    return lo, hi


def pattern_strategy(pat, lo, hi):
    """Strings fully matching one of gen.PATTERNS with length in [lo, hi]."""
    from .gen import PATTERNS
    kind = {p: k for p, _, _, k in PATTERNS}[pat]
    plo, phi = {p: (a, b) for p, a, b, _ in PATTERNS}[pat]
    lo = max(lo, plo)
    if phi is not None:
        hi = phi if hi is None else min(hi, phi)
    if hi is not None and hi < lo:
        return None
    cap = hi if hi is not None else lo + 20

    def txt(alpha, a=lo, b=cap):
        return st.text(alpha, min_size=max(a, 0), max_size=max(b, a, 0))
    if kind == 'lower':
        return txt('abcxyz')
    if kind == 'digit':
        return st.text('0123456789', min_size=3, max_size=3)
    if kind == 'hex':
        return txt('0123456789abcdef')
    if kind == 'pathlike':
        if cap == 0:
            return st.just('')
        body = st.text(st.sampled_from(['a', '/', ' ', '\n', 'é', '.', '"']),
                       min_size=max(lo - 1, 0), max_size=max(cap - 1, 0)).map(lambda s: '/' + s)
        return st.one_of(st.just(''), body) if lo == 0 else body
    if kind == 'email':
        part = st.text('abc.x-', min_size=1, max_size=4)
        return st.tuples(part, part, part).map(lambda p: '%s@%s.%s' % p).filter(
            lambda s: lo <= len(s) <= cap)
    if kind == 'abcd':
        return st.sampled_from(['ab', 'cd'])
    if kind == 'capword':
        return st.tuples(st.sampled_from('ABZ'), st.text('abz', min_size=max(1, lo - 1),
                                                         max_size=max(1, min(5, cap - 1)))).map(''.join)
    if kind == 'idcolon':
        return st.text(st.sampled_from(['a', '1', ' ', ':', 'é', '"', '\\']), min_size=max(1, lo - 3),
                       max_size=max(1, cap - 3)).map(lambda s: 'id:' + s)
    raise AssertionError(kind)


def string_strategy(params, for_spec=False, wild=False):
    lo, hi = _clip_len(params)
    pat = params.get('pattern')
    if pat:
        s = pattern_strategy(pat, lo, hi)
        if s is None:
            return None
        return s
    alpha = WILD_ALPHABET if wild else SAFE_ALPHABET
    cap = hi if hi is not None else max(lo + 12, 12)
    base = st.text(alpha, min_size=lo, max_size=cap)
    fixed = [s for s in INTERESTING if lo <= len(s) <= cap]
    bound = []
    if hi is not None:
        bound.append(st.text(alpha, min_size=hi, max_size=hi))
    if lo:
        bound.append(st.text(alpha, min_size=lo, max_size=lo))
    out = st.one_of(*( [st.sampled_from(fixed)] if fixed else []), base, *bound)
    if not wild:
        # 4-space runs are eaten by the lexer's indentation stripping (DESIGN §5 #18) and are
        # generated only in wild mode
        out = out.filter(lambda s: '    ' not in s)
    return out


def int_strategy(name, params):
    lo, hi = M.INT_RANGES[name]
    a = params.get('min_value', lo)
    b = params.get('max_value', hi)
    a, b = max(a, lo), min(b, hi)
    if a > b:
        return None
    edge = sorted({v for v in (a, b, a + 1, b - 1, 0, 1, -1, 2**31 - 1, 2**31, 2**53, 2**53 + 1)
                   if a <= v <= b})
    return st.one_of(st.sampled_from(edge), st.integers(a, b))


def float_strategy(name, params, for_spec=False):
    lo = -M.FLOAT32_MAX if name == 'Float32' else -1.7976931348623157e308
    hi = -lo
    a = params.get('min_value')
    b = params.get('max_value')
    a = lo if a is None else max(float(a), lo)
    b = hi if b is None else min(float(b), hi)
    if a > b:
        return None
    edge = sorted({v for v in (a, b, 0.0, -0.0, 0.5, -1.5, 1.0, 1e22, 5e-324, 1e-5, 123456789.125)
                   if a <= v <= b}, key=lambda v: (v, math.copysign(1, v)))
    lo_i, hi_i = max(-2**40, math.ceil(a)), min(2**40, math.floor(b))
    return st.one_of(st.sampled_from(edge),
                     st.floats(a, b, allow_nan=False, allow_infinity=False),
                     st.integers(lo_i, hi_i).map(float) if lo_i <= hi_i else st.nothing())


def truncate_ts(dt, fmt):
    """A timestamp representable in its format: strptime(strftime(x))."""
    return datetime.datetime.strptime(dt.strftime(fmt), fmt)


def timestamp_strategy(fmt):
    base = st.datetimes(min_value=datetime.datetime(1000, 1, 1),
                        max_value=datetime.datetime(9999, 12, 31, 23, 59, 59))
    edge = st.sampled_from([datetime.datetime(1000, 1, 1), datetime.datetime(1970, 1, 1),
                            datetime.datetime(2015, 5, 12, 15, 50, 38),
                            datetime.datetime(9999, 12, 31, 23, 59, 59, 999999),
                            datetime.datetime(2000, 2, 29, 12, 0, 0, 500000)])
    return st.one_of(edge, base).map(lambda d: truncate_ts(d, fmt))


def bytes_strategy():
    return st.one_of(st.sampled_from([b'', b'\x00', b'\xff\xfe', b'hello', bytes(range(256))]),
                     st.binary(max_size=24))


def prim_value_strategy(t, for_spec=False, wild=False):
    """Python values valid for primitive type `t` (None when the type is uninhabited)."""
    assert t[0] == 'prim', t
    name, params = t[1], M.pparams(t)
    if name in M.INTS:
        return int_strategy(name, params)
    if name in M.FLOATS:
        return float_strategy(name, params, for_spec)
    if name == 'Boolean':
        return st.booleans()
    if name == 'String':
        return string_strategy(params, for_spec, wild)
    if name == 'Bytes':
        return bytes_strategy()
    if name == 'Timestamp':
        return timestamp_strategy(params['format'])
    if name == 'Void':
        return st.none()
    raise AssertionError(name)


def to_spec_literal(t, v):
    """Python value -> the literal a spec would write for it (defaults, examples, attrs)."""
    name = t[1]
    if name == 'Bytes':
        return base64.b64encode(v).decode('ascii')
    if name == 'Timestamp':
        return v.strftime(M.pparams(t)['format'])
    return v
