"""Reference JSON encoder written from docs/json_serializer.rst, driven by the model."""
import base64

from . import model as M


def encode(idx, t, v, callers=frozenset(), top=True):
    """Model type + abstract value -> JSON-compatible Python value."""
    k = t[0]
    if k == 'alias':
        return encode(idx, idx.get(t[1], t[2])['type'], v, callers, top)
    if k == 'nullable':
        return None if v is None else encode(idx, t[1], v, callers, top)
    if k == 'prim':
        name = t[1]
        if name == 'Bytes':
            return base64.b64encode(v).decode('ascii')      # "String: Base64-encoded"
        if name == 'Timestamp':
            return v.strftime(M.pparams(t)['format'])        # "Encoded using strftime()"
        if name == 'Void':
            return None
        if name in M.INTS:
            return int(v)
        return v
    if k == 'list':
        return [encode(idx, t[1], x, callers, False) for x in v]
    if k == 'map':
        return {key: encode(idx, t[2], x, callers, False) for key, x in v.items()}
    if v[0] == 'struct':
        return encode_struct(idx, t, v, callers)
    return encode_union(idx, v, callers)


def struct_fields_json(idx, v, callers):
    from .values import omitted_for
    ns, name = v[1]
    d = idx.get(ns, name)
    out = {}
    for _, _, f in idx.struct_all_fields(ns, d):
        if f['name'] in v[2] and not omitted_for(idx, f, callers):
            # "Each specified field has a key in the object"; unset optional fields are omitted
            out[f['name']] = encode(idx, f['type'], v[2][f['name']], callers, False)
    return out


def encode_struct(idx, t, v, callers):
    ns, name = v[1]
    out = {}
    declared = idx.get(t[1], t[2])
    if declared.get('subtypes'):
        # "A struct that enumerates subtypes ... includes a .tag key to distinguish the type"
        tag = [tg for tg, kid in declared['subtypes']['items'] if kid == name and t[1] == ns]
        out['.tag'] = tag[0]
    out.update(struct_fields_json(idx, v, callers))
    return out


def encode_union(idx, v, callers):
    ns, name = v[1]
    d = idx.get(ns, name)
    tag = v[2]
    tg = [x for _, _, x in idx.union_all_tags(ns, d) if x['name'] == tag][0]
    if tg['type'] is None or v[3] is None:
        return {'.tag': tag}                       # void and unset nullable members: tag only
    b = idx.base(tg['type'])
    inner = encode(idx, tg['type'], v[3], callers, False)
    if b[0] == 'ref':
        kd = idx.get(b[1], b[2])
        if kd['k'] == 'struct' and not kd.get('subtypes'):
            # "Union members that are ordinary structs serialize as the struct with the
            # addition of a .tag key"
            out = {'.tag': tag}
            out.update(inner)
            return out
    return {'.tag': tag, tag: inner}               # everything else nests under the tag name


def json_equal(a, b):
    """JSON value equality: key order irrelevant, numbers compared numerically (but bool is
    not a number)."""
    if isinstance(a, bool) or isinstance(b, bool):
        return isinstance(a, bool) and isinstance(b, bool) and a == b
    if isinstance(a, (int, float)) and isinstance(b, (int, float)):
        return a == b
    if isinstance(a, dict) and isinstance(b, dict):
        return set(a) == set(b) and all(json_equal(a[k], b[k]) for k in a)
    if isinstance(a, list) and isinstance(b, list):
        return len(a) == len(b) and all(json_equal(x, y) for x, y in zip(a, b))
    return type(a) is type(b) and a == b
