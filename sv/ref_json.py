"""Reference JSON encoder written from docs/json_serializer.rst, driven by the model."""
import base64

from . import model as M


def encode(idx, t, v, callers=frozenset(), top=True):
    """Model type + abstract value -> JSON-compatible Python value."""
    k = t[0]
    if k == 'alias':
        return encode(idx, idx.get(t[1], t[2])['type'], v, callers, top)
    if k == 'nullable':
        return None if v is None else encode(idx, t[1], v, callers, top)
    if k == 'prim':
        name = t[1]
        if name == 'Bytes':
            return base64.b64encode(v).decode('ascii')      # "String: Base64-encoded"
        if name == 'Timestamp':
            return v.strftime(M.pparams(t)['format'])        # "Encoded using strftime()"
        if name == 'Void':
            return None
        if name in M.INTS:
            return int(v)
        return v
    if k == 'list':
        return [encode(idx, t[1], x, callers, False) for x in v]
    if k == 'map':
        return {key: encode(idx, t[2], x, callers, False) for key, x in v.items()}
    if v[0] == 'struct':
        return encode_struct(idx, t, v, callers)
    return encode_union(idx, v, callers)


def struct_fields_json(idx, v, callers):
    from .values import omitted_for
    ns, name = v[1]
    d = idx.get(ns, name)
    out = {}
    for _, _, f in idx.struct_all_fields(ns, d):
        if f['name'] in v[2] and not omitted_for(idx, f, callers):
            # "Each specified field has a key in the object"; unset optional fields are omitted
            out[f['name']] = encode(idx, f['type'], v[2][f['name']], callers, False)
    return out


def encode_struct(idx, t, v, callers):
    ns, name = v[1]
    out = {}
    declared = idx.get(t[1], t[2])
    if declared.get('subtypes'):
        # "A struct that enumerates subtypes ... includes a .tag key to distinguish the type"
        tag = [tg for tg, kid in declared['subtypes']['items'] if kid == name and t[1] == ns]
        if tag:
            out['.tag'] = tag[0]
        else:
            out['.tag'] = None     # the base struct itself (catch-all of an unknown subtype): no tag of its own
    out.update(struct_fields_json(idx, v, callers))
    return out


def encode_union(idx, v, callers):
    ns, name = v[1]
    d = idx.get(ns, name)
    tag = v[2]
    tg = [x for _, _, x in idx.union_all_tags(ns, d) if x['name'] == tag][0]
    if tg['type'] is None or v[3] is None:
        return {'.tag': tag}                       # void and unset nullable members: tag only
    b = idx.base(tg['type'])
    inner = encode(idx, tg['type'], v[3], callers, False)
    if b[0] == 'ref':
        kd = idx.get(b[1], b[2])
        if kd['k'] == 'struct' and not kd.get('subtypes'):
            # "Union members that are ordinary structs serialize as the struct with the
            # addition of a .tag key"
            out = {'.tag': tag}
            out.update(inner)
            return out
    return {'.tag': tag, tag: inner}               # everything else nests under the tag name


def json_equal(a, b):
    """JSON value equality: key order irrelevant, numbers compared numerically (but bool is
    not a number)."""
    if isinstance(a, bool) or isinstance(b, bool):
        return isinstance(a, bool) and isinstance(b, bool) and a == b
    if isinstance(a, (int, float)) and isinstance(b, (int, float)):
        return a == b
    if isinstance(a, dict) and isinstance(b, dict):
        return set(a) == set(b) and all(json_equal(a[k], b[k]) for k in a)
    if isinstance(a, list) and isinstance(b, list):
        return len(a) == len(b) and all(json_equal(x, y) for x, y in zip(a, b))
    return type(a) is type(b) and a == b


# =======================================================================================
# three-valued reference validator / expected decoding (C06, C07)
#
# expect(...) -> ('A', abstract value) | ('R', reason) | ('U', why)
# Only what docs/json_serializer.rst, the property statement or a pinned test fixes is judged.

import datetime
import re


class Ctx:
    def __init__(self, idx, strict, callers=frozenset()):
        self.idx = idx
        self.strict = strict
        self.callers = callers


def kind_of(j):
    if j is None:
        return 'null'
    if isinstance(j, bool):
        return 'bool'
    if isinstance(j, (int, float)):
        return 'number'
    if isinstance(j, str):
        return 'string'
    if isinstance(j, list):
        return 'array'
    return 'object'


def expect(c, t, j, where='top'):
    idx = c.idx
    k = t[0]
    if k == 'alias':
        return expect(c, idx.get(t[1], t[2])['type'], j, where)
    if k == 'nullable':
        if j is None:
            return 'A', None
        return expect(c, t[1], j, where)
    if k == 'prim':
        return expect_prim(t, j, c.strict, where)
    if k == 'list':
        if not isinstance(j, list):
            return 'R', 'wrong-kind:array/%s@%s' % (kind_of(j), where)
        if (t[2] is not None and len(j) < t[2]) or (t[3] is not None and len(j) > t[3]):
            return 'R', 'list-length@%s' % where
        out = []
        verdict = 'A'
        for x in j:
            v, r = expect(c, t[1], x, 'item')
            if v == 'R':
                return 'R', r
            if v == 'U':
                verdict = 'U'
            out.append(r)
        return (verdict, out) if verdict == 'A' else ('U', 'element unspecified')
    if k == 'map':
        if not isinstance(j, dict):
            return 'R', 'wrong-kind:object/%s@%s' % (kind_of(j), where)
        out = {}
        verdict = 'A'
        for key, x in j.items():
            kv, kr = expect(c, t[1], key, 'mapkey')
            v, r = expect(c, t[2], x, 'mapvalue')
            if kv == 'R':
                return 'R', kr
            if v == 'R':
                return 'R', r
            if 'U' in (kv, v):
                verdict = 'U'
            out[key] = r
        return (verdict, out) if verdict == 'A' else ('U', 'entry unspecified')
    d = idx.get(t[1], t[2])
    if d['k'] == 'struct':
        return expect_struct(c, t, d, j, where)
    return expect_union(c, t, d, j, where)


def expect_prim(t, j, strict, where):
    name, p = t[1], M.pparams(t)
    kj = kind_of(j)
    if name == 'Void':
        if j is None:
            return 'A', None
        return ('R', 'non-null-for-void@%s' % where) if strict else ('U', 'lenient void')
    if name == 'Boolean':
        return ('A', j) if kj == 'bool' else ('R', 'wrong-kind:bool/%s@%s' % (kj, where))
    if name in M.INTS:
        if kj == 'bool':
            return 'U', 'bool for number'
        if kj != 'number':
            return 'R', 'wrong-kind:number/%s@%s' % (kj, where)
        if isinstance(j, float):
            if j != j or j in (float('inf'), float('-inf')):
                return 'U', 'non-finite'
            return ('U', 'integral float') if j == int(j) else ('R', 'fraction-for-integer@%s' % where)
        lo, hi = M.INT_RANGES[name]
        lo = max(lo, p.get('min_value', lo))
        hi = min(hi, p.get('max_value', hi))
        return ('A', j) if lo <= j <= hi else ('R', 'out-of-bounds@%s' % where)
    if name in M.FLOATS:
        if kj == 'bool':
            return 'U', 'bool for number'
        if kj != 'number':
            return 'R', 'wrong-kind:number/%s@%s' % (kj, where)
        try:
            f = float(j)
        except OverflowError:
            return 'R', 'out-of-bounds@%s' % where
        if f != f or f in (float('inf'), float('-inf')):
            return 'R', 'non-finite@%s' % where
        lo = -M.FLOAT32_MAX if name == 'Float32' else None
        hi = M.FLOAT32_MAX if name == 'Float32' else None
        if 'min_value' in p:
            lo = float(p['min_value']) if lo is None else max(lo, float(p['min_value']))
        if 'max_value' in p:
            hi = float(p['max_value']) if hi is None else min(hi, float(p['max_value']))
        if (lo is not None and f < lo) or (hi is not None and f > hi):
            return 'R', 'out-of-bounds@%s' % where
        return 'A', f
    if name == 'String':
        if kj != 'string':
            return 'R', 'wrong-kind:string/%s@%s' % (kj, where)
        if 'min_length' in p and len(j) < p['min_length']:
            return 'R', 'string-length@%s' % where
        if 'max_length' in p and len(j) > p['max_length']:
            return 'R', 'string-length@%s' % where
        if 'pattern' in p:
            try:
                if re.fullmatch(p['pattern'], j) is None:
                    return 'R', 'pattern@%s' % where
            except re.error:
                return 'U', 'regex'
        return 'A', j
    if name == 'Bytes':
        if kj != 'string':
            return 'R', 'wrong-kind:string/%s@%s' % (kj, where)
        try:
            raw = base64.b64decode(j.encode('ascii'), validate=True)
            if base64.b64encode(raw).decode('ascii') == j:
                return 'A', raw
        except Exception:
            pass
        return 'U', 'non-canonical base64'
    if name == 'Timestamp':
        if kj != 'string':
            return 'R', 'wrong-kind:string/%s@%s' % (kj, where)
        try:
            dt = datetime.datetime.strptime(j, p['format'])
        except ValueError:
            return 'R', 'timestamp-format@%s' % where
        if dt.strftime(p['format']) != j:
            return 'U', 'non-canonical timestamp'
        return 'A', dt
    raise AssertionError(name)


def struct_has_required(idx, ns, d):
    return any(not idx.is_optional(f) for _, _, f in idx.struct_all_fields(ns, d))


def expect_struct_fields(c, ns, d, j, where, ignore=('.tag',)):
    """j is a dict; returns verdict for the fields of concrete struct (ns, d)."""
    from .values import omitted_for
    idx = c.idx
    fields = {}
    verdict = 'A'
    known = set()
    for _, _, f in idx.struct_all_fields(ns, d):
        if omitted_for(idx, f, c.callers):
            continue
        name = f['name']
        known.add(name)
        if name in j:
            if j[name] is None and not idx.is_nullable(f['type']):
                b = idx.base(f['type'])
                if b[0] == 'ref':
                    kd = idx.get(b[1], b[2])
                    if kd['k'] == 'struct' and not struct_has_required(idx, b[1], kd) and not kd.get('subtypes'):
                        verdict = 'U'      # pinned: null decodes to the default struct
                        continue
                if b == M.VOID:
                    continue
                return 'R', 'null-for-non-nullable-field@%s' % where
            v, r = expect(c, f['type'], j[name], 'field')
            if v == 'R':
                return 'R', r
            if v == 'U':
                verdict = 'U'
            elif r is not None or not idx.is_nullable(f['type']):
                fields[name] = r
        elif not idx.is_optional(f):
            b = idx.base(f['type'])
            if b[0] == 'ref':
                kd = idx.get(b[1], b[2])
                if kd['k'] == 'struct' and not struct_has_required(idx, b[1], kd) and not kd.get('subtypes'):
                    verdict = 'U'          # pinned: test_struct_decoding_with_optional_struct
                    continue
            return 'R', 'missing-required-field@%s' % where
    extra = [key for key in j if key not in known and key not in ignore]
    if extra:
        if any(key.startswith('.tag') for key in extra):
            verdict = 'U'
        elif c.strict:
            return 'R', 'strict-unknown-field@%s' % where
    return verdict, fields


def expect_struct(c, t, d, j, where):
    idx = c.idx
    ns = t[1]
    if j is None and not d.get('subtypes') and not struct_has_required(idx, ns, d):
        return 'U', 'null for all-optional struct'
    if not isinstance(j, dict):
        return 'R', 'wrong-kind:object/%s@%s%s' % (kind_of(j), where, '(subtypes)' if d.get('subtypes') else '')
    if d.get('subtypes'):
        if '.tag' not in j:
            return 'R', 'missing-subtype-tag@%s' % where
        tag = j['.tag']
        if not isinstance(tag, str):
            return 'R', 'non-string-subtype-tag@%s' % where
        kids = dict(d['subtypes']['items'])
        if tag in kids:
            kd = idx.get(ns, kids[tag])
            v, r = expect_struct_fields(c, ns, kd, j, where)
            return (v, ('struct', (ns, kd['name']), r)) if v == 'A' else (v, r)
        if c.strict:
            return 'R', 'strict-unknown-subtype@%s' % where
        if d['subtypes']['closed']:
            return 'R', 'unknown-subtype-closed@%s' % where
        # catch-all: "it deserializes the message to an A object"
        lenient = Ctx(idx, False, c.callers)
        v, r = expect_struct_fields(lenient, ns, d, j, where)
        return (v, ('struct', (ns, d['name']), r)) if v == 'A' else (v, r)
    v, r = expect_struct_fields(c, ns, d, j, where)
    if v == 'A' and '.tag' in j:
        return 'U', '.tag on a plain struct'
    return (v, ('struct', (ns, d['name']), r)) if v == 'A' else (v, r)


def expect_union(c, t, d, j, where):
    from .values import omitted_for
    idx = c.idx
    ns = t[1]
    tags = {tg['name']: tg for _, _, tg in idx.union_all_tags(ns, d) if not omitted_for(idx, tg, c.callers)}
    is_open = any(tg.get('catch_all') for tg in tags.values())

    def unknown(tag):
        if not is_open:
            return 'R', 'unknown-tag-closed-union@%s' % where
        if c.strict:
            return 'R', 'strict-unknown-tag@%s' % where
        return 'A', ('union', (ns, d['name']), 'other', None)
    if isinstance(j, str):
        if j not in tags:
            return unknown(j)
        tg = tags[j]
        if tg.get('catch_all'):
            return 'R', 'catch-all-tag-itself@%s' % where
        if tg['type'] is None:
            return 'A', ('union', (ns, d['name']), j, None)      # compact form of void tags
        if idx.is_nullable(tg['type']):
            return 'U', 'bare string for nullable member'
        return 'R', 'bare-string-for-valued-tag@%s' % where
    if not isinstance(j, dict):
        return 'R', 'wrong-kind:object/%s@%s(union)' % (kind_of(j), where)
    if '.tag' not in j:
        return 'R', 'missing-tag@%s' % where
    tag = j['.tag']
    if not isinstance(tag, str):
        return 'R', 'non-string-tag@%s' % where
    if tag not in tags:
        return unknown(tag)
    tg = tags[tag]
    if tg.get('catch_all'):
        return 'R', 'catch-all-tag-itself@%s' % where
    others = [key for key in j if key not in ('.tag', tag)]
    if tg['type'] is None:
        if tag in j and j[tag] is not None:
            return ('R', 'value-for-void-tag@%s' % where) if c.strict else ('U', 'lenient void payload')
        if others:
            return ('R', 'strict-unknown-field@%s(void tag)' % where) if c.strict else \
                ('A', ('union', (ns, d['name']), tag, None))
        if tag in j:
            return 'U', 'explicit null for void tag'
        return 'A', ('union', (ns, d['name']), tag, None)
    nullable = idx.is_nullable(tg['type'])
    b = idx.base(tg['type'])
    if b[0] == 'ref' and idx.get(b[1], b[2])['k'] == 'struct' and not idx.get(b[1], b[2]).get('subtypes'):
        kd = idx.get(b[1], b[2])
        if nullable and len(j) == 1:
            return 'A', ('union', (ns, d['name']), tag, None)     # tag-only nullable member
        v, r = expect_struct_fields(c, b[1], kd, j, where + '(flattened)')
        if v != 'A':
            return v, r
        if nullable and not r and not struct_has_required(idx, b[1], kd):
            return 'U', 'empty nullable struct member'
        return 'A', ('union', (ns, d['name']), tag, ('struct', (b[1], kd['name']), r))
    if tag not in j:
        if nullable:
            if others:
                # strict mode rejects unknown fields wherever they sit
                return ('R', 'strict-unknown-field@%s(nullable member)' % where) if c.strict else ('U', 'extra keys')
            return 'A', ('union', (ns, d['name']), tag, None)
        return 'R', 'missing-tag-value@%s' % where
    if others:
        return ('R', 'strict-unknown-field@%s(valued tag)' % where) if c.strict else ('U', 'extra keys lenient')
    if j[tag] is None and nullable:
        return 'U', 'explicit null for nullable member'
    v, r = expect(c, tg['type'], j[tag], 'tagvalue')
    if v != 'A':
        return v, r
    return 'A', ('union', (ns, d['name']), tag, r)


# =======================================================================================
# caller permissions and redaction (C13)

import hashlib


class Refused(Exception):
    """The encoding must be refused (a union tag the caller may not see)."""


def redactor_of(idx, annots):
    for a in annots or []:
        d = idx.get(a[0], a[1])
        if d['atype'][1] in ('RedactedBlot', 'RedactedHash'):
            return d['atype'][1], (d['args'][0] if d['args'] else None)
    return None


def redact_scalar(red, val):
    """Blot mask, the configured regex groups, or the hash (property statement / lang_ref
    "Redaction")."""
    kind, regex = red
    m = None
    if regex:
        try:
            m = re.search(regex, val)
        except TypeError:
            m = None
    if kind == 'RedactedBlot':
        return '***'.join(m.groups()) if m else '********'
    text = str(val) if isinstance(val, (int, float)) else val
    try:
        hashed = hashlib.md5(text.encode('utf-8')).hexdigest()
    except (AttributeError, ValueError):
        hashed = None
    if m:
        blotted = '***'.join(m.groups())
        return '%s (%s)' % (hashed, blotted) if hashed else blotted
    return hashed


class Redacted:
    """Marks a value the reference encoder replaced by a redactor."""

    def __init__(self, value):
        self.value = value


def unmark(j):
    if isinstance(j, Redacted):
        return j.value
    if isinstance(j, dict):
        return {k: unmark(v) for k, v in j.items()}
    if isinstance(j, list):
        return [unmark(v) for v in j]
    return j


def redacted_positions_differ(exp, got, path=''):
    """Compare only the positions the reference redacted; returns a description or None."""
    if isinstance(exp, Redacted):
        if not json_equal(_plain(exp.value), _plain(got)):
            return '%s: expected %r, got %r' % (path, exp.value, got)
        return None
    if isinstance(exp, dict) and isinstance(got, dict):
        for k, v in exp.items():
            if k in got:
                r = redacted_positions_differ(v, got[k], path + '/' + ('.tag' if k == '.tag' else 'k'))
                if r:
                    return r
    elif isinstance(exp, list) and isinstance(got, list) and len(exp) == len(got):
        for a, b in zip(exp, got):
            r = redacted_positions_differ(a, b, path + '/[]')
            if r:
                return r
    return None


def _plain(j):
    import json as _json
    return _json.loads(_json.dumps(j))


def redact_value(red, v):
    return Redacted(_redact_value(red, v))


def _redact_value(red, v):
    if isinstance(v, list):
        return [redact_scalar(red, x) for x in v]
    if isinstance(v, dict):
        return {k: redact_scalar(red, x) for k, x in v.items()}
    return redact_scalar(red, v)


def encode_p(idx, t, v, callers, redact):
    """Reference encoder with caller permissions and redaction."""
    from .values import omitted_for
    k = t[0]
    if k == 'alias':
        a = idx.get(t[1], t[2])
        red = redactor_of(idx, a.get('annots')) if redact else None
        if red and v is not None:
            return redact_value(red, v)
        return encode_p(idx, a['type'], v, callers, redact)
    if k == 'nullable':
        return None if v is None else encode_p(idx, t[1], v, callers, redact)
    if k == 'prim':
        return encode(idx, t, v)
    if k == 'list':
        return [encode_p(idx, t[1], x, callers, redact) for x in v]
    if k == 'map':
        return {key: encode_p(idx, t[2], x, callers, redact) for key, x in v.items()}
    if v[0] == 'struct':
        ns, name = v[1]
        d = idx.get(ns, name)
        out = {}
        declared = idx.get(t[1], t[2])
        if declared.get('subtypes'):
            out['.tag'] = [tg for tg, kid in declared['subtypes']['items'] if kid == name][0]
        for _, _, f in idx.struct_all_fields(ns, d):
            if f['name'] in v[2] and not omitted_for(idx, f, callers):
                red = redactor_of(idx, f.get('annots')) if redact else None
                if red:
                    out[f['name']] = redact_value(red, v[2][f['name']])
                else:
                    out[f['name']] = encode_p(idx, f['type'], v[2][f['name']], callers, redact)
        return out
    ns, name = v[1]
    d = idx.get(ns, name)
    tag = v[2]
    tg = [x for _, _, x in idx.union_all_tags(ns, d) if x['name'] == tag][0]
    if omitted_for(idx, tg, callers):
        raise Refused(tag)
    if tg['type'] is None or v[3] is None:
        return {'.tag': tag}
    red = redactor_of(idx, tg.get('annots')) if redact else None
    inner = redact_value(red, v[3]) if red else encode_p(idx, tg['type'], v[3], callers, redact)
    b = idx.base(tg['type'])
    if b[0] == 'ref' and not red:
        kd = idx.get(b[1], b[2])
        if kd['k'] == 'struct' and not kd.get('subtypes'):
            out = {'.tag': tag}
            out.update(inner)
            return out
    return {'.tag': tag, tag: inner}
