"""Greedy reduction of a list of (path, text) specs under a predicate (keeps it true)."""


def _blocks(lines):
    """(start, end) ranges: a line together with the more-indented lines that follow it."""
    out = []
    for i, ln in enumerate(lines):
        if not ln.strip():
            out.append((i, i + 1))
            continue
        ind = len(ln) - len(ln.lstrip())
        j = i + 1
        while j < len(lines) and (not lines[j].strip() or len(lines[j]) - len(lines[j].lstrip()) > ind):
            j += 1
        out.append((i, j))
    return out


def reduce_specs(specs, pred, max_rounds=6):
    specs = list(specs)
    assert pred(specs)
    for _ in range(max_rounds):
        changed = False
        # whole files
        i = 0
        while i < len(specs) and len(specs) > 1:
            cand = specs[:i] + specs[i + 1:]
            if pred(cand):
                specs = cand
                changed = True
            else:
                i += 1
        # blocks, biggest first
        for fi in range(len(specs)):
            path, text = specs[fi]
            lines = text.split('\n')
            progress = True
            while progress:
                progress = False
                for a, b in sorted(_blocks(lines), key=lambda ab: ab[0] - ab[1]):
                    if a == 0 and lines[0].startswith('namespace'):
                        continue
                    cand_lines = lines[:a] + lines[b:]
                    cand = specs[:fi] + [(path, '\n'.join(cand_lines))] + specs[fi + 1:]
                    if pred(cand):
                        lines = cand_lines
                        specs = cand
                        progress = True
                        changed = True
                        break
        if not changed:
            break
    return specs
