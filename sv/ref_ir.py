"""Reference image of a model as an API description, a canonical dump of a real stone.ir.Api,
their comparison (C02) and the closure / ordering invariants."""
import datetime

from . import model as M


# ---------------------------------------------------------------------------------------
# dump of a real Api

def texpr(dt):
    from stone.ir import data_types as D
    if isinstance(dt, D.Nullable):
        return ('nullable', texpr(dt.data_type))
    if isinstance(dt, D.List):
        return ('list', texpr(dt.data_type), dt.min_items, dt.max_items)
    if isinstance(dt, D.Map):
        return ('map', texpr(dt.key_data_type), texpr(dt.value_data_type))
    if isinstance(dt, D.Alias):
        return ('alias', dt.namespace.name, dt.name)
    if isinstance(dt, D.UserDefined):
        return ('ref', dt.namespace.name, dt.name)
    if isinstance(dt, (D._BoundedInteger, D._BoundedFloat)):
        return M.prim(dt.name, min_value=dt.min_value, max_value=dt.max_value)
    if isinstance(dt, D.String):
        return M.prim('String', min_length=dt.min_length, max_length=dt.max_length,
                      pattern=dt.pattern)
    if isinstance(dt, D.Timestamp):
        return M.prim('Timestamp', format=dt.format)
    if isinstance(dt, D.Primitive):
        return M.prim(dt.name)
    return ('BAD', type(dt).__name__)


def value_sig(v):
    from stone.ir import data_types as D
    if isinstance(v, D.TagRef):
        u = v.union_data_type
        return ('tag', texpr(u), v.tag_name)
    if isinstance(v, datetime.datetime):
        return ('datetime', v.isoformat())
    if isinstance(v, bytes):
        return ('bytes', v)
    if isinstance(v, float):
        return ('float', repr(v))
    if isinstance(v, bool):
        return ('bool', v)
    if isinstance(v, int):
        return ('int', v)
    return v


def annotation_sig(a):
    from stone.ir import data_types as D
    if a is None:
        return None
    if isinstance(a, D.Redacted):
        return (type(a).__name__, a.regex)
    if isinstance(a, D.Omitted):
        return ('Omitted', a.omitted_caller)
    if isinstance(a, D.CustomAnnotation):
        return ('custom', a.namespace.name, a.name)
    return (type(a).__name__,)


def field_sig(f, struct=True):
    s = {
        'name': f.name,
        'type': texpr(f.data_type),
        'raw_doc': f.raw_doc,
        'doc': f.doc,
        'omitted_caller': f.omitted_caller,
        'deprecated': bool(f.deprecated),
        'preview': bool(f.preview),
        'redactor': annotation_sig(f.redactor),
        'custom': [annotation_sig(a) for a in f.custom_annotations],
    }
    if struct:
        s['has_default'] = f.has_default
        s['default'] = value_sig(f.default) if f.has_default else None
    else:
        s['catch_all'] = bool(f.catch_all)
    return s


def example_sig(examples):
    return [(label, ex.text, _plain(ex.value)) for label, ex in examples.items()]


def _plain(v):
    if isinstance(v, dict):
        return {k: _plain(x) for k, x in v.items()}
    if isinstance(v, (list, tuple)):
        return [_plain(x) for x in v]
    if isinstance(v, float):
        return ('float', repr(v))
    return v


def type_sig(d):
    from stone.ir import data_types as D
    s = {
        'name': d.name,
        'ns': d.namespace.name,
        'raw_doc': d.raw_doc,
        'doc': d.doc,
        'parent': texpr(d.parent_type)[1:] if d.parent_type else None,
        'examples': example_sig(d.get_examples()),
    }
    if isinstance(d, D.Struct):
        s['k'] = 'struct'
        s['fields'] = [field_sig(f) for f in d.fields]
        s['all_fields'] = [f.name for f in d.all_fields]
        s['all_required'] = [f.name for f in d.all_required_fields]
        s['all_optional'] = [f.name for f in d.all_optional_fields]
        if d.has_enumerated_subtypes():
            s['subtypes'] = {'catch_all': d.is_catch_all(),
                             'items': [(f.name, texpr(f.data_type)[1:]) for f in
                                       d.get_enumerated_subtypes()]}
        else:
            s['subtypes'] = None
        s['direct_subtypes'] = sorted(texpr(x)[1:] for x in d.subtypes)
    else:
        s['k'] = 'union'
        s['closed'] = d.closed
        s['tags'] = [field_sig(f, struct=False) for f in d.fields]
        s['all_tags'] = [f.name for f in d.all_fields]
        s['catch_all'] = d.catch_all_field.name if d.catch_all_field else None
    return s


def route_sig(r):
    dep = None
    if r.deprecated is not None:
        dep = ('by', (r.deprecated.by.name, r.deprecated.by.version) if r.deprecated.by else None)
    return {
        'name': r.name, 'version': r.version,
        'arg': texpr(r.arg_data_type), 'result': texpr(r.result_data_type),
        'error': texpr(r.error_data_type), 'raw_doc': r.raw_doc, 'doc': r.doc,
        'deprecated': dep,
        'attrs': [(k, value_sig(v)) for k, v in r.attrs.items()],
    }


def annotation_def_sig(a):
    from stone.ir import data_types as D
    s = {'name': a.name, 'kind': type(a).__name__}
    if isinstance(a, D.Omitted):
        s['arg'] = a.omitted_caller
    elif isinstance(a, D.Redacted):
        s['arg'] = a.regex
    elif isinstance(a, D.CustomAnnotation):
        at = a.annotation_type
        s['atype'] = (at.namespace.name, at.name)
        s['kwargs'] = sorted((k, value_sig(v)) for k, v in a.kwargs.items())
        s['args'] = [value_sig(v) for v in a.args]
    return s


def api_sig(api):
    """Complete canonical dump (everything a backend can observe), in API order."""
    out = {'namespaces': [], 'route_schema': None}
    for name, ns in api.namespaces.items():
        n = {
            'name': name,
            'key_matches_name': name == ns.name,
            'doc': ns.doc,
            'types': [type_sig(d) for d in ns.data_types],
            'aliases': [{'name': a.name, 'type': texpr(a.data_type), 'raw_doc': a.raw_doc,
                         'doc': a.doc, 'redactor': annotation_sig(a.redactor),
                         'custom': [annotation_sig(c) for c in a.custom_annotations]}
                        for a in ns.aliases],
            'routes': [route_sig(r) for r in ns.routes],
            'annotations': [annotation_def_sig(a) for a in ns.annotations],
            'annotation_types': [{'name': t.name, 'raw_doc': t.raw_doc, 'doc': t.doc,
                                  'params': [{'name': p.name, 'type': texpr(p.data_type),
                                              'raw_doc': p.raw_doc, 'has_default': p.has_default,
                                              'default': value_sig(p.default) if p.has_default else None}
                                             for p in t.params]}
                                 for t in ns.annotation_types],
            'imports': [i.name for i in ns.get_imported_namespaces(
                consider_annotations=True, consider_annotation_types=True)],
            'imports_data': [i.name for i in ns.get_imported_namespaces(
                must_have_imported_data_type=True)],
            'linear_types': [d.name for d in ns.linearize_data_types()],
            'linear_aliases': [a.name for a in ns.linearize_aliases()],
            'route_io': [texpr(d) for d in ns.get_route_io_data_types()],
            'route_by_name': sorted((k, v.name, v.version) for k, v in ns.route_by_name.items()),
            'routes_by_name': sorted((k, sorted(v.at_version)) for k, v in ns.routes_by_name.items()),
        }
        out['namespaces'].append(n)
    rs = api.route_schema
    if rs is not None:
        out['route_schema'] = {'fields': [field_sig(f) for f in rs.fields],
                               'all_fields': [f.name for f in rs.all_fields]}
    return out


# ---------------------------------------------------------------------------------------
# expected image of a model

def exp_value(idx, t, v):
    """Expected default / attr value in the API description."""
    if v is None:
        return None
    if v[0] == 'tag':
        b = idx.base(t) if t[0] != 'ref' else t
        return ('tag', t if t[0] in ('ref', 'alias') else b, v[1])
    b = idx.base(t)
    lit = v[1]
    if lit is None:
        return None
    if b[0] == 'prim' and b[1] in M.FLOATS:
        return ('float', repr(float(lit)))     # LR "Defaults" + ir: float fields hold floats
    if isinstance(lit, bool):
        return ('bool', lit)
    if isinstance(lit, int):
        return ('int', lit)
    if isinstance(lit, float):
        return ('float', repr(lit))
    return lit


def exp_attr_value(idx, t, v):
    b = idx.base(t)
    if v is not None and v[0] == 'lit' and v[1] is not None and b[0] == 'prim':
        if b[1] == 'Bytes':
            return ('bytes', v[1].encode('utf-8'))
        if b[1] == 'Timestamp':
            return ('datetime', datetime.datetime.strptime(v[1], M.pparams(b)['format']).isoformat())
    if v is not None and v[0] == 'lit' and v[1] is not None and b[0] == 'prim' and b[1] in M.FLOATS:
        # attrs keep the literal as written (ints stay ints); only defaults are coerced
        lit = v[1]
        if isinstance(lit, int) and not isinstance(lit, bool):
            return ('int', lit)
    return exp_value(idx, t, v)


def raw_doc_of(text):
    if text is None:
        return None
    return '\n'.join(line.rstrip() for line in text.split('\n'))


def exp_field(idx, f, struct=True):
    kinds = {}
    customs = []
    for a in f.get('annots') or []:
        d = idx.get(a[0], a[1])
        k = d['atype'][1]
        if k in ('Omitted', 'Deprecated', 'Preview', 'RedactedBlot', 'RedactedHash'):
            kinds[k] = d
        else:
            customs.append(('custom', a[0], a[1]))
    red = None
    for k in ('RedactedBlot', 'RedactedHash'):
        if k in kinds:
            red = (k, kinds[k]['args'][0] if kinds[k]['args'] else None)
    raw = raw_doc_of(f.get('doc'))
    s = {
        'name': f['name'],
        'type': f['type'] if f['type'] is not None else M.VOID,
        'raw_doc': raw,
        'omitted_caller': kinds['Omitted']['args'][0] if 'Omitted' in kinds else None,
        'deprecated': 'Deprecated' in kinds,
        'preview': 'Preview' in kinds,
        'redactor': red,
        'custom': customs,
    }
    # annotation prefixes of `doc` are not documented -> judged only without them
    if not (set(kinds) & {'Omitted', 'Deprecated', 'Preview'}):
        s['doc'] = M.doc_unwrap(raw)
    else:
        s['doc__endswith'] = M.doc_unwrap(raw) if raw is not None else None
    if struct:
        s['has_default'] = f.get('default') is not None
        s['default'] = exp_value(idx, f['type'], f.get('default'))
    else:
        s['catch_all'] = bool(f.get('catch_all'))
    return s


def exp_type(idx, ns, d):
    raw = raw_doc_of(d.get('doc'))
    s = {'name': d['name'], 'ns': ns, 'raw_doc': raw, 'doc': M.doc_unwrap(raw),
         'parent': tuple(d['parent']) if d.get('parent') else None, 'k': d['k']}
    if d['k'] == 'struct':
        s['fields'] = [exp_field(idx, f) for f in d['fields']]
        allf = idx.struct_all_fields(ns, d)
        s['all_fields'] = [f['name'] for _, _, f in allf]
        s['all_required'] = [f['name'] for _, _, f in allf if not idx.is_optional(f)]
        s['all_optional'] = [f['name'] for _, _, f in allf if idx.is_optional(f)]
        if d.get('subtypes'):
            s['subtypes'] = {'catch_all': not d['subtypes']['closed'],
                             'items': [(tag, (ns, name)) for tag, name in d['subtypes']['items']]}
        else:
            s['subtypes'] = None
        s['direct_subtypes'] = sorted((n, c['name']) for n, c in idx.children(ns, d['name']))
    else:
        s['closed'] = d['closed']
        tags = [exp_field(idx, t, struct=False) for t in d['tags']]
        if idx.has_catch_all_own(ns, d):
            tags.append(exp_field(idx, {'name': 'other', 'type': None, 'doc': None, 'annots': [],
                                        'catch_all': True}, struct=False))
        s['tags'] = tags
        s['all_tags'] = [t['name'] for _, _, t in idx.union_all_tags(ns, d)]
        own = idx.has_catch_all_own(ns, d)
        s['catch_all'] = 'other' if own else None
    return s


def exp_route(idx, api, ns, r):
    dep = None
    if r['deprecated'] is True:
        dep = ('by', None)
    elif r['deprecated']:
        dep = ('by', tuple(r['deprecated']))
    raw = raw_doc_of(r.get('doc'))
    attrs = []
    sch = api.get('schema')
    if sch:
        # Struct.all_fields order: required first, then optional
        req = [f for f in sch['fields'] if not idx.is_optional(f)]
        opt = [f for f in sch['fields'] if idx.is_optional(f)]
        for f in req + opt:
            if f['name'] in r['attrs'] and r['attrs'][f['name']][1] is not None:
                v = exp_attr_value(idx, f['type'], r['attrs'][f['name']])
            elif f.get('default') is not None:
                v = exp_value(idx, f['type'], f['default'])
            else:
                v = None
            attrs.append((f['name'], v))
    return {'name': r['name'], 'version': r['version'], 'arg': r['arg'], 'result': r['result'],
            'error': r['error'], 'raw_doc': raw, 'doc': M.doc_unwrap(raw), 'deprecated': dep,
            'attrs': attrs}


def exp_annotation(idx, ns, a):
    k = a['atype'][1]
    if k in ('Deprecated', 'Preview'):
        return {'name': a['name'], 'kind': k}
    if k == 'Omitted':
        return {'name': a['name'], 'kind': k, 'arg': a['args'][0]}
    if k in ('RedactedBlot', 'RedactedHash'):
        return {'name': a['name'], 'kind': k, 'arg': a['args'][0] if a['args'] else None}
    atns = a['atype'][0] or ns
    at = idx.get(atns, k)
    kwargs = []
    for i, p in enumerate(at['params']):
        if i < len(a['args']):
            v = ('lit', a['args'][i])
        elif p['name'] in a['kwargs']:
            v = ('lit', a['kwargs'][p['name']])
        elif p['type'][0] == 'nullable':
            v = None
        else:
            v = p['default']
        kwargs.append((p['name'], exp_value(idx, p['type'], v) if v is not None and v[1] is not None else None))
    return {'name': a['name'], 'kind': 'CustomAnnotation', 'atype': (atns, k),
            'kwargs': sorted(kwargs, key=lambda kv: kv[0])}


def expected_sig(api, meta):
    idx = M.Index(api)
    out = {'namespaces': []}
    for n in sorted(api['namespaces'], key=lambda n: n['name']):
        name = n['name']
        docs = meta['ns_docs'][name]
        types = sorted((d for d in n['defs'] if d['k'] in ('struct', 'union')),
                       key=lambda d: d['name'])
        aliases = sorted((d for d in n['defs'] if d['k'] == 'alias'), key=lambda d: d['name'])
        routes = sorted((d for d in n['defs'] if d['k'] == 'route'),
                        key=lambda d: (d['name'], d['version']))
        annots = sorted((d for d in n['defs'] if d['k'] == 'annotation'), key=lambda d: d['name'])
        e = {
            'name': name,
            'key_matches_name': True,
            'doc': ''.join(M.doc_unwrap(raw_doc_of(d)) + '\n' for d in docs) if docs else None,
            'types': [exp_type(idx, name, d) for d in types],
            'aliases': [],
            'routes': [exp_route(idx, api, name, r) for r in routes],
            'annotations': [exp_annotation(idx, name, a) for a in annots],
            'annotation_types__set': sorted(d['name'] for d in n['defs'] if d['k'] == 'annotation_type'),
            'route_by_name': sorted((r['name'], r['name'], 1) for r in routes if r['version'] == 1),
            'routes_by_name': sorted((nm, sorted(r['version'] for r in routes if r['name'] == nm))
                                     for nm in {r['name'] for r in routes}),
        }
        for a in aliases:
            red = None
            customs = []
            for an in a.get('annots') or []:
                d = idx.get(an[0], an[1])
                k = d['atype'][1]
                if k in ('RedactedBlot', 'RedactedHash'):
                    red = (k, d['args'][0] if d['args'] else None)
                else:
                    customs.append(('custom', an[0], an[1]))
            raw = raw_doc_of(a.get('doc'))
            e['aliases'].append({'name': a['name'], 'type': a['type'], 'raw_doc': raw,
                                 'doc': M.doc_unwrap(raw), 'redactor': red, 'custom': customs})
        out['namespaces'].append(e)
    sch = api.get('schema')
    if sch and sch['fields']:
        out['route_schema'] = {'fields': [exp_field(idx, f) for f in sch['fields']]}
    else:
        out['route_schema'] = {'fields': []}
    return out


def diff(exp, act, path=()):
    """First-order structural diff: only keys present in `exp` are judged.  Returns a list of
    (path, expected, actual); names along the path are replaced by kinds for signatures."""
    out = []
    if isinstance(exp, dict):
        if not isinstance(act, dict):
            return [(path, exp, act)]
        for k, v in exp.items():
            if k.endswith('__endswith'):
                a = act.get(k[:-10])
                if v is None:
                    pass        # "Field is deprecated. None" style texts are not judged
                elif not (isinstance(a, str) and a.endswith(v)):
                    out.append((path + (k,), v, a))
            elif k.endswith('__set'):
                a = sorted(x['name'] for x in act.get(k[:-5], []))
                if a != v:
                    out.append((path + (k,), v, a))
            elif k not in act:
                out.append((path + (k,), v, '<missing>'))
            else:
                out.extend(diff(v, act[k], path + (k,)))
        return out
    if isinstance(exp, list) and exp and isinstance(exp[0], dict):
        if not isinstance(act, list) or len(act) != len(exp) or \
                [e.get('name') for e in exp] != [a.get('name') if isinstance(a, dict) else None for a in act]:
            return [(path + ('names',), [e.get('name') for e in exp],
                     [a.get('name') if isinstance(a, dict) else a for a in act] if isinstance(act, list) else act)]
        for e, a in zip(exp, act):
            out.extend(diff(e, a, path + ('[]',)))
        return out
    if M.freeze(exp) != M.freeze(act):
        return [(path, exp, act)]
    return out


# ---------------------------------------------------------------------------------------
# closure / ordering invariants on a real Api (C02 second half)

def invariants(api):
    from stone.ir import data_types as D
    bad = []

    def chk(cond, what):
        if not cond:
            bad.append(what)
    names = list(api.namespaces)
    chk(names == sorted(names), 'namespaces not alphabetical')

    def walk_dt(dt, where, depth=0):
        if depth > 50:
            bad.append('type nesting too deep (cycle?) at %s' % where)
            return
        if isinstance(dt, D.Alias):
            chk(dt.data_type is not None, 'alias without target at %s' % where)
            reg = api.namespaces.get(dt.namespace.name)
            chk(reg is not None and reg.alias_by_name.get(dt.name) is dt,
                'reachable alias not registered at %s' % where)
            if dt.data_type is not None:
                walk_dt(dt.data_type, where, depth + 1)
        elif isinstance(dt, D.UserDefined):
            chk(not dt._is_forward_ref, 'reachable forward reference at %s' % where)
            reg = api.namespaces.get(dt.namespace.name)
            chk(reg is not None and reg.data_type_by_name.get(dt.name) is dt,
                'reachable type is not the registered object at %s' % where)
        elif isinstance(dt, (D.Nullable, D.List)):
            walk_dt(dt.data_type, where, depth + 1)
        elif isinstance(dt, D.Map):
            walk_dt(dt.key_data_type, where, depth + 1)
            walk_dt(dt.value_data_type, where, depth + 1)
        else:
            chk(isinstance(dt, D.DataType), 'non-DataType %s at %s' % (type(dt).__name__, where))

    for nsname, ns in api.namespaces.items():
        chk(nsname != 'stone_cfg', 'stone_cfg exposed')
        tn = [d.name for d in ns.data_types]
        chk(tn == sorted(tn), 'data types not alphabetical')
        an = [a.name for a in ns.aliases]
        chk(an == sorted(an), 'aliases not alphabetical')
        rn = [(r.name, r.version) for r in ns.routes]
        chk(rn == sorted(rn), 'routes not sorted')
        atn = [t.name for t in ns.annotation_types]
        chk(atn == sorted(atn), 'annotation types not alphabetical')
        ann = [a.name for a in ns.annotations]
        chk(ann == sorted(ann), 'annotations not alphabetical')
        chk(len(set(rn)) == len(rn), 'duplicate route')
        chk(set(ns.data_type_by_name) == set(tn) and all(ns.data_type_by_name[d.name] is d for d in ns.data_types),
            'data_type_by_name mismatch')
        chk(set(ns.alias_by_name) == set(an), 'alias_by_name mismatch')
        byname = {}
        for r in ns.routes:
            byname.setdefault(r.name, {})[r.version] = r
        chk({k: v.at_version for k, v in ns.routes_by_name.items()} == byname, 'routes_by_name mismatch')
        chk(ns.route_by_name == {r.name: r for r in ns.routes if r.version == 1}, 'route_by_name mismatch')
        try:
            lin = ns.linearize_data_types()
        except (Exception, RecursionError) as e:
            bad.append('linearize_data_types raised %s' % type(e).__name__)
            lin = list(ns.data_types)
        chk(sorted(d.name for d in lin) == tn and len(lin) == len(tn), 'linearize_data_types not a permutation')
        pos = {d.name: i for i, d in enumerate(lin)}
        for d in lin:
            if d.parent_type is not None and d.parent_type.namespace is ns:
                chk(pos.get(d.parent_type.name, 1e9) < pos[d.name], 'linearization: parent after child')
        try:
            lal = ns.linearize_aliases()
        except (Exception, RecursionError) as e:
            bad.append('linearize_aliases raised %s' % type(e).__name__)
            lal = list(ns.aliases)
        chk(sorted(a.name for a in lal) == an and len(lal) == len(an), 'linearize_aliases not a permutation')
        pos = {a.name: i for i, a in enumerate(lal)}
        def nested_aliases(dt, depth=0):
            if isinstance(dt, D.Alias):
                return [dt]
            out = []
            if depth < 20:
                for attr in ('data_type', 'key_data_type', 'value_data_type'):
                    inner = getattr(dt, attr, None)
                    if inner is not None and not isinstance(dt, D.UserDefined):
                        out += nested_aliases(inner, depth + 1)
            return out
        for a in lal:
            for tgt in nested_aliases(a.data_type):
                if tgt.namespace is ns:
                    chk(pos.get(tgt.name, 1e9) < pos[a.name],
                        'linearization: alias target after alias' if tgt is a.data_type else
                        'linearization: alias referenced inside a container comes after the alias using it')
        for d in ns.data_types:
            chk(d.namespace is ns, 'type registered in foreign namespace')
            chk(not d._is_forward_ref, 'registered forward reference')
            # inheritance acyclic
            seen = set()
            cur = d
            while cur is not None:
                if id(cur) in seen:
                    bad.append('inheritance cycle')
                    break
                seen.add(id(cur))
                cur = cur.parent_type
            if d.parent_type is not None:
                walk_dt(d.parent_type, 'parent')
            for f in d.fields or []:
                walk_dt(f.data_type, 'field')
            if isinstance(d, D.Struct):
                req = d.all_required_fields
                opt = d.all_optional_fields
                chk([f.name for f in d.all_fields] == [f.name for f in req + opt], 'all_fields != required+optional')
                chain = []
                cur = d
                while cur is not None:
                    chain.insert(0, cur)
                    cur = cur.parent_type
                    if len(chain) > 50:
                        break

                def isopt(f):
                    return f.has_default or isinstance(f.data_type, D.Nullable)
                chk([f.name for f in req] == [f.name for c in chain for f in c.fields if not isopt(f)],
                    'required fields not ancestors-first')
                chk([f.name for f in opt] == [f.name for c in chain for f in c.fields if isopt(f)],
                    'optional fields not ancestors-first')
                if d.has_enumerated_subtypes():
                    for sf in d.get_enumerated_subtypes():
                        walk_dt(sf.data_type, 'subtype')
        for a in ns.aliases:
            walk_dt(a, 'alias')
        for r in ns.routes:
            for dt in (r.arg_data_type, r.result_data_type, r.error_data_type):
                chk(dt is not None, 'route without io type')
                if dt is not None:
                    walk_dt(dt, 'route')
            if api.route_schema is not None:
                chk(list(r.attrs) == [f.name for f in api.route_schema.all_fields],
                    'route attrs keys differ from schema fields')
    return bad
