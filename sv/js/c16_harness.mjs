// C16 evaluation harness: one node process per case.
//
//   node c16_harness.mjs job.json
//
// job = {files: [{id, path, kind}]}   kind: 'client' (js_client output) | 'parse' (only load it)
//
// Every file is loaded with import() -- the same module-goal parser `node --check file.mjs`
// uses, so a SyntaxError here is a SyntaxError there (the Python side re-confirms with a
// real `node --check` before reporting).  For a client file every function of the exported
// `routes` object is then called with three sentinel objects and a `this` whose request()
// records its arguments.  Output: '##RESULT##' + JSON on stdout.
import fs from 'node:fs';
import { pathToFileURL } from 'node:url';

const job = JSON.parse(fs.readFileSync(process.argv[2], 'utf8'));
const SENT = [{ sentinel: 0 }, { sentinel: 1 }, { sentinel: 2 }];

function enc(v) {
  const i = SENT.indexOf(v);
  if (i >= 0) return { t: 'sent', i };
  if (v === null) return { t: 'null' };
  if (v === undefined) return { t: 'undef' };
  if (typeof v === 'number') return { t: 'num', v: Object.is(v, -0) ? '-0' : String(v) };
  if (typeof v === 'string') return { t: 'str', v };
  if (typeof v === 'boolean') return { t: 'bool', v };
  if (typeof v === 'bigint') return { t: 'bigint', v: String(v) };
  let j;
  try { j = JSON.stringify(v); } catch (e) { j = String(v); }
  return { t: typeof v, v: String(j).slice(0, 200) };
}

function errInfo(e) {
  return {
    name: e && e.name ? String(e.name) : typeof e,
    message: String(e && e.message !== undefined ? e.message : e).slice(0, 300),
  };
}

const out = [];
for (const item of job.files) {
  const res = { id: item.id, error: null, routes: null, exports: null };
  try {
    const mod = await import(pathToFileURL(item.path).href);
    res.exports = Object.keys(mod);
    if (item.kind === 'client') {
      const routes = mod.routes;
      if (typeof routes !== 'object' || routes === null) {
        res.error = { name: 'NoRoutesExport', message: 'module does not export an object `routes`' };
      } else {
        res.routes = [];
        for (const name of Object.keys(routes)) {
          const fn = routes[name];
          const rec = { name, type: typeof fn, length: null, calls: [], threw: null };
          if (typeof fn === 'function') {
            rec.length = fn.length;
            const self = {
              request: function (...args) {
                rec.calls.push({ args: args.map(enc), thisOk: this === self });
                return SENT[2];
              },
            };
            try {
              fn.call(self, SENT[0], SENT[1]);
            } catch (e) {
              rec.threw = errInfo(e);
            }
          }
          res.routes.push(rec);
        }
      }
    }
  } catch (e) {
    res.error = errInfo(e);
  }
  out.push(res);
}
process.stdout.write('##RESULT##' + JSON.stringify(out) + '##END##');
