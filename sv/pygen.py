"""Compile specs with the Python backends into a scratch package and import it."""
import importlib
import itertools
import os
import shutil
import sys
import tempfile
import traceback

_counter = itertools.count()


class BuildFailure(Exception):
    def __init__(self, stage, exc, tb=''):
        super().__init__('%s: %r' % (stage, exc))
        self.stage = stage
        self.exc = exc
        self.tb = tb


class PyPkg:
    """Generated python_types (+ optionally client / stubs) output of one spec set."""

    def __init__(self, specs, client=False, stubs=False, api=None, import_now=True,
                 route_whitelist_filter=None):
        from stone.frontend.frontend import specs_to_ir
        from stone.compiler import Compiler, BackendException
        self.tmp = tempfile.mkdtemp(prefix='sv_py_')
        self.pkg = 'svpkg%d_%d' % (os.getpid(), next(_counter))
        self.outdir = os.path.join(self.tmp, self.pkg)
        self.mods = {}
        self.client_mod = None
        try:
            if api is None:
                try:
                    api = specs_to_ir(list(specs), route_whitelist_filter=route_whitelist_filter)
                except Exception as e:
                    raise BuildFailure('frontend', e, traceback.format_exc())
            self.api = api
            stages = [('python_types', ['-p', self.pkg])]
            if client:
                stages.append(('python_client', ['-m', 'client_mod', '-c', 'ClientBase', '-t', self.pkg]))
            if stubs:
                stages.append(('python_type_stubs', ['-p', self.pkg]))
            for name, args in stages:
                mod = importlib.import_module('stone.backends.%s' % name)
                try:
                    Compiler(api, mod, args, self.outdir).build()
                except BackendException as e:
                    raise BuildFailure(name, e, e.traceback)
                except SystemExit as e:
                    raise BuildFailure(name, e, traceback.format_exc())
            if import_now:
                self.import_all()
        except BaseException:
            self.close()
            raise

    def import_all(self):
        sys.path.insert(0, self.tmp)
        importlib.invalidate_caches()
        try:
            for ns in self.api.namespaces:
                try:
                    self.mods[ns] = importlib.import_module('%s.%s' % (self.pkg, ns))
                except Exception as e:
                    raise BuildFailure('import', e, traceback.format_exc())
            if os.path.exists(os.path.join(self.outdir, 'client_mod.py')):
                try:
                    self.client_mod = importlib.import_module('%s.client_mod' % self.pkg)
                except Exception as e:
                    raise BuildFailure('import_client', e, traceback.format_exc())
        finally:
            pass

    def cls(self, ns, name):
        return getattr(self.mods[ns], name)

    def validator(self, ns, name):
        return getattr(self.mods[ns], name + '_validator')

    def files(self):
        out = {}
        for root, _, names in os.walk(self.outdir):
            for n in names:
                p = os.path.join(root, n)
                with open(p, 'rb') as f:
                    out[os.path.relpath(p, self.outdir)] = f.read()
        return out

    def close(self):
        for k in [k for k in sys.modules if k == self.pkg or k.startswith(self.pkg + '.')]:
            del sys.modules[k]
        if self.tmp in sys.path:
            sys.path.remove(self.tmp)
        shutil.rmtree(self.tmp, ignore_errors=True)

    def __enter__(self):
        return self

    def __exit__(self, *a):
        self.close()


def stone_runtime():
    """The runtime modules of the tree under test."""
    from stone.backends.python_rsrc import stone_serializers as ss, stone_validators as bv, stone_base as bb
    return ss, bv, bb
