"""Catalogue of single language-rule violations injected into valid models (C01 part b).

Every rule cites docs/lang_ref.rst (LR) or the pinned test in test/test_stone.py that states
it.  A rule is a function  rule(I) -> context label (str) | None (not applicable); it adds
`raw` definitions (lines of spec text) to the model through the helpers of `I`, or registers
a text-level edit.  The surrounding text added by a rule is valid on its own, so the injected
violation is the only one.
"""
import copy

from hypothesis import strategies as st

from . import gen, model as M, render


class I:
    def __init__(self, draw, api):
        self.g = gen.G(draw)
        self.api = copy.deepcopy(api)
        self.idx = M.Index(self.api)
        self.n = 0
        self.text_edit = None
        self.ns = self.g.choice(self.api['namespaces'])
        self.used = {d.get('name') for n in self.api['namespaces'] for d in n['defs']}

    # -- helpers ---------------------------------------------------------------------------
    def fresh(self, prefix='Zq'):
        while True:
            self.n += 1
            name = '%s%d' % (prefix, self.n)
            if name not in self.used:
                self.used.add(name)
                return name

    def raw(self, lines, ns=None):
        (ns or self.ns)['defs'].append({'k': 'raw', 'name': None, 'lines': lines})

    def visible(self, kinds, ns=None):
        ns = ns or self.ns
        out = []
        for nname in [ns['name']] + list(ns['imports']):
            for d in self.idx.ns[nname]['defs']:
                if d['k'] in kinds:
                    out.append((nname, d))
        return out

    def ref(self, nname, d, ns=None):
        ns = ns or self.ns
        return d['name'] if nname == ns['name'] else '%s.%s' % (nname, d['name'])

    def a_struct(self, pred=lambda n, d: True, own=False):
        """Name (as written from self.ns) of an existing struct, or a fresh helper struct."""
        c = [(n, d) for n, d in self.visible(('struct',)) if pred(n, d) and (not own or n == self.ns['name'])]
        if c and self.g.p(80):
            n, d = self.g.choice(c)
            return self.ref(n, d), (n, d)
        name = self.fresh()
        self.raw([(0, 'struct %s' % name), (1, 'zf1 String'), (1, 'zf2 Int32?')])
        return name, None

    def a_union(self, closed=None, own=False):
        c = [(n, d) for n, d in self.visible(('union',))
             if (closed is None or d['closed'] == closed) and (not own or n == self.ns['name'])
             and (closed is None or closed or self.idx.is_open(n, d))
             and (not closed or not self.idx.is_open(n, d))]
        if c and self.g.p(80):
            n, d = self.g.choice(c)
            return self.ref(n, d), (n, d)
        name = self.fresh()
        kw = 'union_closed' if closed else 'union'
        self.raw([(0, '%s %s' % (kw, name)), (1, 'zt1'), (1, 'zt2 String')])
        return name, None

    def via_alias(self, type_text, links=None):
        """Reach `type_text` through an alias chain of 0-3 links (LR "Alias")."""
        links = self.g.int(0, 3) if links is None else links
        cur = type_text
        for _ in range(links):
            name = self.fresh('Za')
            self.raw([(0, 'alias %s = %s' % (name, cur))])
            cur = name
        return cur, ('direct' if links == 0 else 'via-alias-%d' % links)

    def route(self, name, io='Void, Void, Void', tail='', doc=None):
        """A raw route that is valid on its own: supplies the attrs the schema requires."""
        lines = [(0, 'route %s(%s)%s' % (name, io, tail))]
        if doc:
            lines.append((1, doc))
        sch = self.api.get('schema')
        attrs = []
        if sch:
            from .values import prim_value_strategy, to_spec_literal
            for f in sch['fields']:
                if f.get('default') is not None or f['type'][0] == 'nullable':
                    continue
                t = f['type']
                if t[0] == 'ref':
                    u = self.idx.get(t[1], t[2])
                    voids = [tg['name'] for _, _, tg in self.idx.union_all_tags(t[1], u, False)
                             if tg['type'] is None]
                    attrs.append((2, '%s = %s' % (f['name'], voids[0])))
                else:
                    v = to_spec_literal(t, self.g.draw(prim_value_strategy(t, for_spec=True)))
                    attrs.append((2, '%s = %s' % (f['name'], render.fmt_literal(v))))
        if attrs:
            lines += [(1, 'attrs')] + attrs
        self.raw(lines)
        return name

    def holder(self, field_line, extra=()):
        """A fresh struct holding one field line."""
        name = self.fresh()
        self.raw([(0, 'struct %s' % name), (1, field_line)] + list(extra))
        return name


RULES = {}


def rule(fn):
    RULES[fn.__name__[2:]] = fn
    return fn


# ---------------------------------------------------------------------------------------
# syntax / indentation  (test_lexing_errors, test_parsing_errors, test_line_continuations)

@rule
def r_indent_not_multiple_of_4(i):
    i.text_edit = ('indent_off', i.g.int(0, 999), i.g.int(1, 3))
    return 'text'


@rule
def r_continuation_indent(i):
    k = i.g.choice([0, 2])
    name = i.fresh('zq_route')
    if i.api.get('schema'):
        i.api['schema'] = None
        for n in i.api['namespaces']:
            for d in n['defs']:
                if d['k'] == 'route':
                    d['attrs'] = {}
    i.raw([(0, 'route %s(' % name), (k, 'Void,'), (k, 'Void,'), (k, 'Void)')])
    return 'indent-%d' % k


@rule
def r_missing_namespace_line(i):
    i.text_edit = ('drop_namespace', i.g.int(0, 999), 0)
    return 'text'


@rule
def r_unknown_toplevel(i):
    v = i.g.choice(['foo Bar', 'structure Foo', 'Zq1', '= 3', '"stray doc"', 'Zq String'])
    i.raw([(0, v)])
    return 'toplevel'


@rule
def r_duplicate_kwarg(i):
    t = i.g.choice(['String(min_length=1, min_length=2)', 'Int32(max_value=5, max_value=5)',
                    'List(String, min_items=1, min_items=1)'])
    i.holder('zf %s' % t)
    return 'type-arg'


@rule
def r_duplicate_example_label(i):
    name = i.fresh()
    i.raw([(0, 'struct %s' % name), (1, 'zf String'), (1, 'example default'), (2, 'zf = "a"'),
           (1, 'example default'), (2, 'zf = "b"')])
    return 'struct'


@rule
def r_duplicate_example_field(i):
    name = i.fresh()
    i.raw([(0, 'struct %s' % name), (1, 'zf String'), (1, 'example default'), (2, 'zf = "a"'),
           (2, 'zf = "b"')])
    return 'struct'


@rule
def r_route_version_not_positive(i):
    v = i.g.choice([0, -1, -7])
    i.route('%s:%d' % (i.fresh('zq_route'), v))
    return 'v%d' % v


@rule
def r_extends_nullable(i):
    if i.g.p(50):
        p, _ = i.a_struct(lambda n, d: not d.get('subtypes') and not (
            d.get('parent') and i.idx.get(*d['parent']).get('subtypes')))
        i.raw([(0, 'struct %s extends %s?' % (i.fresh(), p)), (1, 'zf String')])
        return 'struct'
    p, _ = i.a_union(closed=False)
    i.raw([(0, 'union %s extends %s?' % (i.fresh(), p)), (1, 'zt')])
    return 'union'


# ---------------------------------------------------------------------------------------
# references  (test_parsing_errors "Symbol ... is undefined", test_import, test_alias, test_route_decl)

@rule
def r_undefined_symbol(i):
    pos = i.g.choice(['field', 'tag', 'alias', 'list', 'map', 'nullable', 'route_arg', 'route_result',
                      'route_error', 'struct_parent', 'union_parent', 'subtype', 'annotation_param'])
    u = i.fresh('Undefined')
    if pos == 'field':
        i.holder('zf %s' % u)
    elif pos == 'tag':
        i.raw([(0, 'union %s' % i.fresh()), (1, 'zt %s' % u)])
    elif pos == 'alias':
        i.raw([(0, 'alias %s = %s' % (i.fresh(), u))])
    elif pos == 'list':
        i.holder('zf List(%s)' % u)
    elif pos == 'map':
        i.holder('zf Map(String, %s)' % u)
    elif pos == 'nullable':
        i.holder('zf %s?' % u)
    elif pos.startswith('route_'):
        io = ['Void', 'Void', 'Void']
        io[['route_arg', 'route_result', 'route_error'].index(pos)] = u
        i.route(i.fresh('zq_route'), ', '.join(io))
    elif pos == 'struct_parent':
        i.raw([(0, 'struct %s extends %s' % (i.fresh(), u)), (1, 'zf String')])
    elif pos == 'union_parent':
        i.raw([(0, 'union %s extends %s' % (i.fresh(), u)), (1, 'zt')])
    elif pos == 'subtype':
        i.raw([(0, 'struct %s' % i.fresh()), (1, 'union'), (2, 'zt %s' % u), (1, 'zf String')])
    else:
        i.raw([(0, 'annotation_type %s' % i.fresh()), (1, 'zp %s' % u)])
    return pos


@rule
def r_namespace_not_imported(i):
    others = [n for n in i.api['namespaces'] if n['name'] != i.ns['name'] and
              n['name'] not in i.ns['imports']]
    cands = [(n, d) for n in others for d in n['defs'] if d['k'] in ('struct', 'union', 'alias')]
    if not cands:
        return None
    n, d = i.g.choice(cands)
    pos = i.g.choice(['field', 'route', 'alias', 'list'])
    t = '%s.%s' % (n['name'], d['name'])
    if pos == 'field':
        i.holder('zf %s' % t)
    elif pos == 'route':
        i.route(i.fresh('zq_route'), 'Void, %s, Void' % t)
    elif pos == 'alias':
        i.raw([(0, 'alias %s = %s' % (i.fresh(), t))])
    else:
        i.holder('zf List(%s)?' % t)
    return pos


@rule
def r_import_undefined_namespace(i):
    i.raw([(0, 'import zq_nowhere')])
    return 'import'


@rule
def r_import_self(i):
    i.raw([(0, 'import %s' % i.ns['name'])])
    return 'import'


@rule
def r_circular_import(i):
    if not i.ns['imports']:
        return None
    other = i.idx.ns[i.g.choice(i.ns['imports'])]
    i.raw([(0, 'import %s' % i.ns['name'])], ns=other)
    return 'import'


@rule
def r_route_used_as_type(i):
    routes = [d for d in i.ns['defs'] if d['k'] == 'route' and '/' not in d['name']]
    if routes and i.g.p(70):
        r = i.g.choice(routes)['name']
    else:
        r = i.route(i.fresh('zq_route'))
    pos = i.g.choice(['field', 'alias', 'route_arg', 'list'])
    if pos == 'field':
        i.holder('zf %s' % r)
    elif pos == 'alias':
        i.raw([(0, 'alias %s = %s' % (i.fresh(), r))])
    elif pos == 'route_arg':
        i.route(i.fresh('zq_route'), '%s, Void, Void' % r)
    else:
        i.holder('zf List(%s)' % r)
    return pos


@rule
def r_non_type_used_as_type(i):
    kind = i.g.choice(['annotation', 'annotation_type', 'namespace'])
    if kind == 'annotation':
        name = i.fresh()
        i.raw([(0, 'annotation %s = Deprecated()' % name)])
    elif kind == 'annotation_type':
        name = i.fresh()
        i.raw([(0, 'annotation_type %s' % name), (1, 'zp String')])
    else:
        if not i.ns['imports']:
            return None
        name = i.g.choice(i.ns['imports'])
    t, ctx = i.via_alias(name, i.g.int(0, 1))
    i.holder('zf %s' % t)
    return '%s|%s' % (kind, ctx)


@rule
def r_undefined_annotation(i):
    pos = i.g.choice(['field', 'tag', 'alias'])
    if pos == 'field':
        i.raw([(0, 'struct %s' % i.fresh()), (1, 'zf String'), (2, '@ZqNoSuchAnnotation')])
    elif pos == 'tag':
        i.raw([(0, 'union %s' % i.fresh()), (1, 'zt'), (2, '@ZqNoSuchAnnotation')])
    else:
        i.raw([(0, 'alias %s = String' % i.fresh()), (1, '@ZqNoSuchAnnotation')])
    return pos


@rule
def r_deprecated_by_bad_target(i):
    kind = i.g.choice(['undefined', 'undefined_version', 'not_a_route'])
    if kind == 'undefined':
        tgt = 'zq_no_route'
    elif kind == 'undefined_version':
        r = i.route(i.fresh('zq_route'))
        tgt = '%s:%d' % (r, i.g.int(2, 5))
    else:
        tgt, _ = i.a_struct(own=True)
    i.route(i.fresh('zq_route'), tail=' deprecated by %s' % tgt)
    return kind


@rule
def r_patch_of_nothing(i):
    kw = i.g.choice(['struct', 'union', 'union_closed'])
    i.raw([(0, 'patch %s %s' % (kw, i.fresh())), (1, 'zf String?' if kw == 'struct' else 'zt')])
    return kw


@rule
def r_patch_kind_mismatch(i):
    kind = i.g.choice(['struct_as_union', 'union_as_struct', 'open_as_closed', 'closed_as_open', 'not_a_type'])
    if kind == 'not_a_type':
        # a patch of something that is neither a struct nor a union (LR "Patching": patches apply to structs / unions)
        what = i.g.choice(['alias', 'route', 'annotation', 'annotation_type'])
        kw = i.g.choice(['struct', 'union', 'union_closed'])
        if what == 'route':
            name = i.route(i.fresh('zq_route'))
        else:
            name = i.fresh('Zp')
            i.raw(_def_line(what, name))
        i.raw([(0, 'patch %s %s' % (kw, name)), (1, 'zqf String?' if kw == 'struct' else 'zqt')])
        return kind + '|' + what
    if kind == 'struct_as_union':
        # an existing patch of the same type would hide this one (second patch replaces the first,
        # reported by C02), so only unpatched types are used
        s, info = i.a_struct(lambda n, d: not d.get('patch'), own=True)
        i.raw([(0, 'patch union %s' % s), (1, 'zqt')])
    elif kind == 'union_as_struct':
        cands = [(n, d) for n, d in i.visible(('union',)) if n == i.ns['name'] and not d.get('patch')]
        if cands:
            u = i.g.choice(cands)[1]['name']
        else:
            u = i.fresh()
            i.raw([(0, 'union %s' % u), (1, 'zt1')])
        i.raw([(0, 'patch struct %s' % u), (1, 'zqf String?')])
    elif kind == 'open_as_closed':
        name = i.fresh()
        i.raw([(0, 'union %s' % name), (1, 'zt1')])
        i.raw([(0, 'patch union_closed %s' % name), (1, 'zqt')])
    else:
        name = i.fresh()
        i.raw([(0, 'union_closed %s' % name), (1, 'zt1')])
        i.raw([(0, 'patch union %s' % name), (1, 'zqt')])
    return kind


# ---------------------------------------------------------------------------------------
# names  (test_name_clash, test_name_conflicts, test_route_decl, test_struct_semantics, ...)

def _def_line(kind, name):
    return {'struct': [(0, 'struct %s' % name), (1, 'zf String')],
            'union': [(0, 'union %s' % name), (1, 'zt')],
            'alias': [(0, 'alias %s = String' % name)],
            'annotation': [(0, 'annotation %s = Deprecated()' % name)],
            'annotation_type': [(0, 'annotation_type %s' % name), (1, 'zp String')]}[kind]


@rule
def r_symbol_defined_twice(i):
    existing = [d for d in i.ns['defs'] if d['k'] in ('struct', 'union', 'alias', 'annotation', 'annotation_type')]
    if existing and i.g.p(70):
        name = i.g.choice(existing)['name']
    else:
        name = i.fresh()
        i.raw(_def_line(i.g.choice(['struct', 'union', 'alias']), name))
    kind = i.g.choice(['struct', 'union', 'alias', 'annotation', 'annotation_type'])
    i.raw(_def_line(kind, name))
    return kind


@rule
def r_canonical_name_clash(i):
    kind = i.g.choice(['type_type', 'type_route', 'type_namespace', 'alias_type'])
    if kind == 'type_namespace':
        nm = ''.join(w.capitalize() for w in i.ns['name'].split('_'))
        if nm in i.used:
            return None
        i.raw(_def_line('struct', nm))
        return kind
    if kind == 'type_route':
        r = i.route('zq_route_%d' % i.g.int(1, 99))
        i.raw(_def_line('struct', ''.join(w.capitalize() for w in r.split('_'))))
        return kind
    base = 'ZqClash%d' % i.g.int(1, 99)
    other = i.g.choice([base.lower(), base.upper(), 'Zq_Clash' + base[7:], 'zq_clash' + base[7:]])
    i.raw(_def_line('alias' if kind == 'alias_type' else 'struct', base))
    i.raw(_def_line(i.g.choice(['struct', 'union']), other))
    return kind


@rule
def r_route_version_defined_twice(i):
    r = i.fresh('zq_route')
    v = i.g.int(1, 3)
    suffix = '' if v == 1 and i.g.p(50) else ':%d' % v
    i.route('%s%s' % (r, suffix))
    i.route('%s:%d' % (r, v))
    return 'v%d' % v


@rule
def r_duplicate_field(i):
    kind = i.g.choice(['own', 'ancestor', 'patch_own', 'patch_ancestor'])
    structs = [(n, d) for n, d in i.visible(('struct',)) if not d.get('subtypes') and
               not (d.get('parent') and i.idx.get(*d['parent']).get('subtypes'))]
    if kind == 'own':
        i.raw([(0, 'struct %s' % i.fresh()), (1, 'zf String'), (1, 'zg Int32'), (1, 'zf Int32?')])
        return kind
    if kind == 'ancestor':
        withf = [(n, d) for n, d in structs if i.idx.struct_all_fields(n, d)]
        if not withf:
            return None
        n, d = i.g.choice(withf)
        _, owner, f = i.g.choice(i.idx.struct_all_fields(n, d))
        depth = len(i.idx.chain(n, d)) - [x[1] for x in i.idx.chain(n, d)].index(owner)
        # the clashing field first, in the middle or last among the child's own fields
        taken = {x['name'] for _, _, x in i.idx.struct_all_fields(n, d)}
        before = [(1, '%s Int32' % nm) for nm in ('zfa', 'zfb')[:i.g.int(0, 2)] if nm not in taken]
        after = [(1, '%s String?' % nm) for nm in ('zfy', 'zfz')[:i.g.int(0, 2)] if nm not in taken]
        i.raw([(0, 'struct %s extends %s' % (i.fresh(), i.ref(n, d)))] + before + [(1, '%s String?' % f['name'])] + after)
        return 'ancestor-depth-%d%s' % (depth, '-not-first' if before else '')
    own = [(n, d) for n, d in structs if n == i.ns['name']]
    if kind == 'patch_own':
        withf = [(n, d) for n, d in own if d['fields'] and not d.get('patch')]
        if not withf:
            return None
        n, d = i.g.choice(withf)
        f = i.g.choice(d['fields'])
        i.raw([(0, 'patch struct %s' % d['name']), (1, '%s String?' % f['name'])])
        return kind
    withp = [(n, d) for n, d in own if d.get('parent') and not d.get('patch') and
             i.idx.struct_all_fields(*d['parent'][:1], i.idx.get(*d['parent']))]
    if not withp:
        return None
    n, d = i.g.choice(withp)
    pf = i.g.choice(i.idx.struct_all_fields(d['parent'][0], i.idx.get(*d['parent'])))[2]
    i.raw([(0, 'patch struct %s' % d['name']), (1, '%s String?' % pf['name'])])
    return kind


@rule
def r_duplicate_tag(i):
    kind = i.g.choice(['own', 'parent'])
    if kind == 'own':
        i.raw([(0, 'union %s' % i.fresh()), (1, 'zt'), (1, 'zu String'), (1, 'zt Int32')])
        return kind
    us = [(n, d) for n, d in i.visible(('union',)) if i.idx.union_all_tags(n, d, False)]
    if not us:
        return None
    n, d = i.g.choice(us)
    tag = i.g.choice(i.idx.union_all_tags(n, d, False))[2]
    kw = 'union' if i.idx.is_open(n, d) else i.g.choice(['union', 'union_closed'])
    taken = {x['name'] for _, _, x in i.idx.union_all_tags(n, d)}
    before = [(1, nm) for nm in ('zta', 'ztb String')[:i.g.int(0, 2)] if nm.split()[0] not in taken]
    after = [(1, nm) for nm in ('zty Int32', 'ztz')[:i.g.int(0, 2)] if nm.split()[0] not in taken]
    i.raw([(0, '%s %s extends %s' % (kw, i.fresh(), i.ref(n, d)))] + before + [(1, tag['name'])] + after)
    return 'parent-depth-%d%s' % (len(i.idx.chain(n, d)), '-not-first' if before else '')


@rule
def r_reserved_other_tag(i):
    kw = i.g.choice(['union', 'union_closed'])
    i.raw([(0, '%s %s' % (kw, i.fresh())), (1, 'zt'), (1, i.g.choice(['other', 'other String']))])
    return kw


# ---------------------------------------------------------------------------------------
# inheritance  (test_struct_semantics, test_union_semantics, test_alias, test_enumerated_subtypes)

@rule
def r_illegal_parent_kind(i):
    kind = i.g.choice(['struct_extends_union', 'union_extends_struct', 'struct_extends_primitive',
                       'union_extends_primitive', 'struct_extends_alias', 'union_extends_alias'])
    if kind == 'struct_extends_union':
        u, _ = i.a_union()
        i.raw([(0, 'struct %s extends %s' % (i.fresh(), u)), (1, 'zf String')])
    elif kind == 'union_extends_struct':
        s, _ = i.a_struct()
        i.raw([(0, 'union %s extends %s' % (i.fresh(), s)), (1, 'zt')])
    elif kind == 'struct_extends_primitive':
        i.raw([(0, 'struct %s extends %s' % (i.fresh(), i.g.choice(['String', 'Int32', 'Void']))), (1, 'zf String')])
    elif kind == 'union_extends_primitive':
        i.raw([(0, 'union %s extends String' % i.fresh()), (1, 'zt')])
    elif kind == 'struct_extends_alias':
        s, _ = i.a_struct(lambda n, d: not d.get('subtypes') and not (
            d.get('parent') and i.idx.get(*d['parent']).get('subtypes')))
        a, _ = i.via_alias(s, i.g.int(1, 2))
        i.raw([(0, 'struct %s extends %s' % (i.fresh(), a)), (1, 'zf String')])
    else:
        u, _ = i.a_union(closed=False)
        a, _ = i.via_alias(u, i.g.int(1, 2))
        i.raw([(0, 'union %s extends %s' % (i.fresh(), a)), (1, 'zt')])
    return kind


@rule
def r_inheritance_cycle(i):
    kw = i.g.choice(['struct', 'union'])
    body = (1, 'zf String') if kw == 'struct' else (1, 'zt')
    n = i.g.int(1, 3)
    names = [i.fresh() for _ in range(n)]
    for k, nm in enumerate(names):
        i.raw([(0, '%s %s extends %s' % (kw, nm, names[(k + 1) % n])), body])
    return '%s-len-%d' % (kw, n)


@rule
def r_closed_union_extends_open(i):
    u, _ = i.a_union(closed=False)
    i.raw([(0, 'union_closed %s extends %s' % (i.fresh(), u)), (1, 'zqt')])
    return 'closed-extends-open'


@rule
def r_enumerated_subtypes(i):
    kind = i.g.choice(['not_struct', 'not_subtype', 'listed_twice', 'missing', 'subtype_extended',
                       'root_has_parent', 'tag_equals_field'])
    root, a, b = i.fresh(), i.fresh(), i.fresh()
    closed = i.g.choice(['union', 'union_closed'])
    fam = [(0, 'struct %s' % root), (1, closed), (2, 'zta %s' % a), (2, 'ztb %s' % b), (1, 'zroot String'),
           ]
    kid_a = [(0, 'struct %s extends %s' % (a, root)), (1, 'zfa String')]
    kid_b = [(0, 'struct %s extends %s' % (b, root)), (1, 'zfb Int32?')]
    if kind == 'not_struct':
        u, _ = i.a_union(own=True)
        fam[3] = (2, 'ztb %s' % u)
        i.raw(fam), i.raw(kid_a)
    elif kind == 'not_subtype':
        s, info = i.a_struct(lambda n, d: not d.get('parent'), own=True)
        fam[3] = (2, 'ztb %s' % s)
        i.raw(fam), i.raw(kid_a)
    elif kind == 'listed_twice':
        fam[3] = (2, 'ztb %s' % a)
        i.raw(fam), i.raw(kid_a)
    elif kind == 'missing':
        del fam[3]
        i.raw(fam), i.raw(kid_a), i.raw(kid_b)
    elif kind == 'subtype_extended':
        i.raw(fam), i.raw(kid_a), i.raw(kid_b)
        i.raw([(0, 'struct %s extends %s' % (i.fresh(), a)), (1, 'zfc String?')])
    elif kind == 'root_has_parent':
        p, _ = i.a_struct(lambda n, d: not d.get('subtypes') and not (
            d.get('parent') and i.idx.get(*d['parent']).get('subtypes')))
        fam[0] = (0, 'struct %s extends %s' % (root, p))
        i.raw(fam), i.raw(kid_a), i.raw(kid_b)
    else:
        fam[4] = (1, 'zta String')
        i.raw(fam), i.raw(kid_a), i.raw(kid_b)
    return kind


# ---------------------------------------------------------------------------------------
# nullability / defaults / type arguments  (test_nullable, test_struct_semantics, test_type_args ...)

@rule
def r_void_nullable(i):
    pos = i.g.choice(['alias', 'tag', 'route'])
    if pos == 'alias':
        i.raw([(0, 'alias %s = Void?' % i.fresh())])
    elif pos == 'tag':
        i.raw([(0, 'union %s' % i.fresh()), (1, 'zt Void?')])
    else:
        i.route(i.fresh('zq_route'), 'Void?, Void, Void')
    return pos


@rule
def r_nullable_of_nullable(i):
    base = i.g.choice(['String', 'Int32', 'List(String)'])
    n = i.fresh('Za')
    i.raw([(0, 'alias %s = %s?' % (n, base))])
    t, ctx = i.via_alias(n, i.g.int(0, 2))
    pos = i.g.choice(['field', 'list', 'alias', 'tag'])
    if pos == 'field':
        i.holder('zf %s?' % t)
    elif pos == 'list':
        i.holder('zf List(%s?)' % t)
    elif pos == 'alias':
        i.raw([(0, 'alias %s = %s?' % (i.fresh(), t))])
    else:
        i.raw([(0, 'union %s' % i.fresh()), (1, 'zt %s?' % t)])
    return '%s|%s' % (pos, ctx)


@rule
def r_void_struct_field(i):
    t, ctx = i.via_alias('Void', i.g.int(0, 2))
    i.holder('zf %s' % t)
    return ctx


@rule
def r_explicit_void_tag(i):
    t, ctx = i.via_alias('Void', i.g.int(0, 2))
    i.raw([(0, 'union %s' % i.fresh()), (1, 'zt %s' % t)])
    return ctx


@rule
def r_default_on_nullable(i):
    kind = i.g.choice(['direct', 'via-alias', 'via-alias-union'])
    if kind == 'via-alias-union':
        # a tag default on a field typed by an alias of a nullable union, in a struct with an example
        # that leaves the field out (the example pass would have to fill the default in)
        u, a = i.fresh(), i.fresh('Za')
        i.raw([(0, 'union %s' % u), (1, 'zt1'), (1, 'zt2 String')])
        i.raw([(0, 'alias %s = %s?' % (a, u))])
        t, _ = i.via_alias(a, i.g.int(0, 1))
        i.holder('zf %s = zt1' % t, extra=[(1, 'zg Int32'), (1, 'example default'), (2, 'zg = 1')])
        return kind
    if kind == 'direct':
        i.holder(i.g.choice(['zf String? = "x"', 'zf Int32? = 3', 'zf Boolean? = true', 'zf String? = null']))
    else:
        n = i.fresh('Za')
        i.raw([(0, 'alias %s = String?' % n)])
        t, _ = i.via_alias(n, i.g.int(0, 1))
        i.holder('zf %s = "x"' % t)
    return kind


@rule
def r_bad_default_value(i):
    v = i.g.choice([
        ('wrong-kind', 'zf Int32 = "x"'), ('wrong-kind', 'zf String = 3'), ('wrong-kind', 'zf Boolean = 1'),
        ('wrong-kind', 'zf Int64 = 1.5'), ('wrong-kind', 'zf String = true'), ('wrong-kind', 'zf Boolean = "true"'),
        ('wrong-kind', 'zf UInt32 = null'),
        ('out-of-range', 'zf UInt32 = -1'), ('out-of-range', 'zf Int32 = 2147483648'),
        ('out-of-range', 'zf Int32(max_value=5) = 6'), ('out-of-range', 'zf Int64(min_value=0) = -1'),
        ('out-of-range', 'zf UInt64 = 18446744073709551616'), ('out-of-range', 'zf Float64(max_value=1.5) = 2.5'),
        ('out-of-range', 'zf Float32 = 1e39'),
        ('length', 'zf String(max_length=2) = "abc"'), ('length', 'zf String(min_length=2) = "a"'),
        ('pattern', 'zf String(pattern="[a-z]+") = "123"'), ('pattern', 'zf String(pattern="\\\\d{3}") = "ab"'),
        ('timestamp', 'zf Timestamp("%Y-%m-%d") = "yesterday"'),
        # LR "Defaults": only primitive fields and (void tags of) unions can have a default
        ('non-defaultable', 'zf List(String) = 1'), ('non-defaultable', 'zf List(String) = null'),
        ('non-defaultable', 'zf Map(String, Int32) = 1'), ('non-defaultable', 'zf List(Int32) = zt'),
        ('non-defaultable', 'zf Map(String, String) = "x"'),
    ])
    if i.g.p(12):
        # a struct-typed field with a default; a union-typed field with a literal default
        if i.g.p(50):
            s, _ = i.a_struct()
            i.holder('zf %s = %s' % (s, i.g.choice(['1', 'zt', '"x"', 'null', 'true'])))
            return 'non-defaultable|struct'
        u = i.fresh()
        i.raw([(0, 'union %s' % u), (1, 'zt1'), (1, 'zt2 String')])
        i.holder('zf %s = %s' % (u, i.g.choice(['1', '"zt1"', 'true', '1.5', 'null'])))
        return 'literal-for-union'
    ctx_alias = ''
    if i.g.p(30):
        # the same through an alias of the parameterised type
        parts = v[1].split(' ', 2)
        a = i.fresh('Za')
        tdef = v[1][len('zf '):v[1].rindex(' = ')]
        i.raw([(0, 'alias %s = %s' % (a, tdef))])
        i.holder('zf %s = %s' % (a, v[1][v[1].rindex(' = ') + 3:]))
        ctx_alias = '|via-alias'
    else:
        i.holder(v[1])
    return v[0] + ctx_alias


@rule
def r_bad_tag_default(i):
    kind = i.g.choice(['unknown_tag', 'non_void_tag'])
    u = i.fresh()
    i.raw([(0, 'union %s' % u), (1, 'zt1'), (1, 'zt2 String')])
    i.holder('zf %s = %s' % (u, 'zt_nope' if kind == 'unknown_tag' else 'zt2'))
    return kind


@rule
def r_bad_type_arguments(i):
    s, _ = i.a_struct()
    v = i.g.choice([
        ('missing-positional', 'Timestamp'), ('missing-positional', 'List'), ('missing-positional', 'Map(String)'),
        ('missing-positional', 'List(min_items=1)'),
        ('too-many-positional', 'String("x")'), ('too-many-positional', 'Int32(1, 2)'),
        ('too-many-positional', 'Boolean(true)'), ('too-many-positional', 'List(String, 1)'),
        # an optional parameter given by position *and* by keyword
        ('positional-and-keyword', 'List(String, 1, min_items=2)'), ('positional-and-keyword', 'String(1, min_length=2)'),
        ('positional-and-keyword', 'Int32(0, min_value=1)'), ('positional-and-keyword', 'Float64(0.5, max_value=1.5)'),
        ('unknown-kwarg', 'String(foo=1)'), ('unknown-kwarg', 'Int32(min_length=1)'),
        ('unknown-kwarg', 'Bytes(max_length=3)'), ('unknown-kwarg', 'Boolean(x=true)'),
        ('positional-as-kwarg', 'List(data_type=String)'), ('positional-as-kwarg', 'Timestamp(fmt="%Y")'),
        ('args-on-user-type', '%s(1)' % s), ('args-on-user-type', '%s(zf=1)' % s),
        ('illegal-bound', 'Int32(min_value=-2147483649)'), ('illegal-bound', 'UInt32(max_value=4294967296)'),
        ('illegal-bound', 'UInt64(min_value=-1)'), ('illegal-bound', 'String(max_length=0)'),
        ('illegal-bound', 'String(min_length=-1)'), ('illegal-bound', 'String(min_length=3, max_length=2)'),
        ('illegal-bound', 'List(String, min_items=-1)'), ('illegal-bound', 'List(String, max_items=0)'),
        ('illegal-bound', 'List(String, min_items=3, max_items=2)'), ('illegal-bound', 'Int32(min_value="a")'),
        ('illegal-bound', 'Float64(max_value="a")'), ('illegal-bound', 'String(min_length=1.5)'),
        ('illegal-bound', 'Float32(max_value=1e39)'),
        ('bad-regex', 'String(pattern="(")'), ('bad-regex', 'String(pattern="[a-")'),
        ('bad-pattern-kind', 'String(pattern=3)'), ('bad-format-kind', 'Timestamp(3)'),
        ('non-string-map-key', 'Map(Int32, String)'), ('non-string-map-key', 'Map(%s, String)' % s),
        ('non-string-map-key', 'Map(List(String), String)'),
    ])
    pos = i.g.choice(['field', 'alias', 'tag', 'route', 'list'])
    if pos == 'field':
        i.holder('zf %s' % v[1])
    elif pos == 'alias':
        i.raw([(0, 'alias %s = %s' % (i.fresh(), v[1]))])
    elif pos == 'tag':
        i.raw([(0, 'union %s' % i.fresh()), (1, 'zt %s' % v[1])])
    elif pos == 'route':
        i.route(i.fresh('zq_route'), 'Void, %s, Void' % v[1])
    else:
        i.holder('zf List(%s)?' % v[1])
    return '%s|%s' % (v[0], pos)


@rule
def r_args_on_alias(i):
    a = i.fresh('Za')
    i.raw([(0, 'alias %s = String' % a)])
    i.holder('zf %s(min_length=1)' % a)
    return 'alias'


# ---------------------------------------------------------------------------------------
# examples  (test_examples, test_examples_union, test_examples_list, test_examples_enumerated_subtypes)

@rule
def r_bad_struct_example(i):
    inner, outer = i.fresh(), i.fresh()
    i.raw([(0, 'struct %s' % inner), (1, 'zi String'), (1, 'example default'), (2, 'zi = "x"')])
    kinds = {
        'missing-required': [(2, 'zb = 3'), (2, 'zc = default')],
        'unknown-field': [(2, 'za = "x"'), (2, 'zb = 3'), (2, 'zc = default'), (2, 'znope = 1')],
        'wrong-kind-string': [(2, 'za = 5'), (2, 'zb = 3'), (2, 'zc = default')],
        'wrong-kind-int': [(2, 'za = "x"'), (2, 'zb = "3"'), (2, 'zc = default')],
        'wrong-kind-float-for-int': [(2, 'za = "x"'), (2, 'zb = 3.5'), (2, 'zc = default')],
        'out-of-bounds': [(2, 'za = "x"'), (2, 'zb = 11'), (2, 'zc = default')],
        'string-too-long': [(2, 'za = "abcdef"'), (2, 'zb = 3'), (2, 'zc = default')],
        'dangling-label': [(2, 'za = "x"'), (2, 'zb = 3'), (2, 'zc = nolabel')],
        'literal-for-struct': [(2, 'za = "x"'), (2, 'zb = 3'), (2, 'zc = "x"')],
        'null-for-required': [(2, 'za = null'), (2, 'zb = 3'), (2, 'zc = default')],
        'bad-list-element': [(2, 'za = "x"'), (2, 'zb = 3'), (2, 'zc = default'), (2, 'zd = [1]')],
        'list-not-list': [(2, 'za = "x"'), (2, 'zb = 3'), (2, 'zc = default'), (2, 'zd = "a"')],
        'list-too-long': [(2, 'za = "x"'), (2, 'zb = 3'), (2, 'zc = default'), (2, 'zd = ["a", "b", "c"]')],
        'bad-map-value': [(2, 'za = "x"'), (2, 'zb = 3'), (2, 'zc = default'), (2, 'ze = {"k": "v"}')],
        'bad-nested-list-element': [(2, 'za = "x"'), (2, 'zb = 3'), (2, 'zc = default'), (2, 'zg = [["a"], [2]]')],
        # LR "Union" examples: a union-typed field takes a void tag's name or an example label of the union
        'union-field-nonvoid-tag': [(2, 'za = "x"'), (2, 'zb = 3'), (2, 'zc = default'), (2, 'zu = zt2')],
        'union-field-struct-tag': [(2, 'za = "x"'), (2, 'zb = 3'), (2, 'zc = default'), (2, 'zu = zt3')],
        'union-field-literal': [(2, 'za = "x"'), (2, 'zb = 3'), (2, 'zc = default'), (2, 'zu = 1')],
        'union-field-unknown-tag': [(2, 'za = "x"'), (2, 'zb = 3'), (2, 'zc = default'), (2, 'zu = znope')],
    }
    kind = i.g.choice(sorted(kinds))
    zu = i.fresh()
    i.raw([(0, 'union %s' % zu), (1, 'zt1'), (1, 'zt2 String'), (1, 'zt3 %s' % inner)])
    i.raw([(0, 'struct %s' % outer), (1, 'za String(max_length=3)'), (1, 'zb Int32(max_value=10)'), (1, 'zc %s' % inner),
           (1, 'zd List(String, max_items=2)?'), (1, 'ze Map(String, Int32)?'), (1, 'zg List(List(String))?'),
           (1, 'zu %s?' % zu),
           (1, 'example default')] + kinds[kind])
    return kind


@rule
def r_bad_union_example(i):
    u = i.fresh()
    kinds = {
        'two-tags': [(2, 'zt1 = null'), (2, 'zt2 = "x"')],
        'unknown-tag': [(2, 'znope = null')],
        'void-not-null': [(2, 'zt1 = 1')],
        'wrong-kind': [(2, 'zt2 = 5')],
        'literal-for-struct-tag': [(2, 'zt3 = "x"')],
        'dangling-label': [(2, 'zt3 = nolabel')],
    }
    kind = i.g.choice(sorted(kinds) + ['no-tags'])
    s = i.fresh()
    i.raw([(0, 'struct %s' % s), (1, 'zi String'), (1, 'example default'), (2, 'zi = "x"')])
    body = [(0, 'union %s' % u), (1, 'zt1'), (1, 'zt2 String'), (1, 'zt3 %s' % s), (1, 'example default')]
    if kind != 'no-tags':
        body += kinds[kind]
    i.raw(body)
    return kind


@rule
def r_bad_subtype_example(i):
    root, a = i.fresh(), i.fresh()
    kinds = {
        'two-tags': [(2, 'zta = default'), (2, 'zroot = "x"')],
        'not-a-reference': [(2, 'zta = "x"')],
        'unknown-subtype-tag': [(2, 'znope = default')],
        'dangling-label': [(2, 'zta = nolabel')],
    }
    kind = i.g.choice(sorted(kinds))
    i.raw([(0, 'struct %s' % root), (1, 'union'), (2, 'zta %s' % a), (1, 'zroot String'), (1, 'example default')] + kinds[kind])
    i.raw([(0, 'struct %s extends %s' % (a, root)), (1, 'zfa Int32'), (1, 'example default'), (2, 'zroot = "r"'), (2, 'zfa = 1')])
    return kind


@rule
def r_patch_example_without_base(i):
    s = i.fresh()
    i.raw([(0, 'struct %s' % s), (1, 'za String'), (1, 'example default'), (2, 'za = "x"')])
    i.raw([(0, 'patch struct %s' % s), (1, 'zb Int32?'), (1, 'example other_label'), (2, 'zb = 1')])
    return 'struct'


# ---------------------------------------------------------------------------------------
# route attributes  (test_route_attrs_schema)

def _set_schema(i, fields, imports=()):
    i.api['schema'] = {'fields': [], 'imports': list(imports), 'raw_fields': fields}
    for n in i.api['namespaces']:
        for d in n['defs']:
            if d['k'] == 'route':
                d['attrs'] = {}


@rule
def r_bad_route_attrs(i):
    kinds = ['unknown-key', 'missing-required', 'wrong-kind', 'unknown-tag', 'non-void-tag', 'literal-for-union',
             'null-for-required', 'out-of-range', 'duplicate-key']
    kind = i.g.choice(kinds)
    u = i.fresh()
    i.raw([(0, 'union %s' % u), (1, 'zt1'), (1, 'zt2 String')])
    _set_schema(i, [(1, 'zk1 String = "d"'), (1, 'zk2 Int32(max_value=10)?'), (1, 'zk3 %s.%s?' % (i.ns['name'], u))],
                imports=[i.ns['name']])
    attrs = {
        'unknown-key': [(2, 'znope = 1')],
        'missing-required': None,
        'wrong-kind': [(2, 'zk1 = 5')],
        'unknown-tag': [(2, 'zk3 = znope')],
        'non-void-tag': [(2, 'zk3 = zt2')],
        'literal-for-union': [(2, 'zk3 = "zt1"')],
        'null-for-required': None,
        'out-of-range': [(2, 'zk2 = 11')],
        'duplicate-key': [(2, 'zk1 = "a"'), (2, 'zk1 = "b"')],
    }[kind]
    if kind in ('missing-required', 'null-for-required'):
        i.api['schema']['raw_fields'].append((1, 'zk4 Boolean'))
        attrs = [(2, 'zk1 = "a"')] if kind == 'missing-required' else [(2, 'zk4 = null')]
    i.raw([(0, 'route %s(Void, Void, Void)' % i.fresh('zq_route')), (1, 'attrs')] + attrs)
    return kind


@rule
def r_attrs_without_schema(i):
    i.api['schema'] = None
    for n in i.api['namespaces']:
        for d in n['defs']:
            if d['k'] == 'route':
                d['attrs'] = {}
    i.raw([(0, 'route %s(Void, Void, Void)' % i.fresh('zq_route')), (1, 'attrs'), (2, 'zk = 1')])
    return 'no-schema'


@rule
def r_bad_stone_cfg(i):
    kind = i.g.choice(['route-in-stone-cfg', 'extra-type-in-stone-cfg'])
    i.api['schema'] = {'fields': [], 'imports': [], 'raw_fields': [(1, 'zk1 String = "d"')],
                       'raw_extra': [(0, 'route zq_cfg_route(Void, Void, Void)')] if kind.startswith('route')
                       else [(0, 'struct ZqExtra'), (1, 'zf String')]}
    for n in i.api['namespaces']:
        for d in n['defs']:
            if d['k'] == 'route':
                d['attrs'] = {}
    return kind


# ---------------------------------------------------------------------------------------
# documentation references  (LR "References", test_doc_refs)

@rule
def r_bad_doc_reference(i):
    s, _ = i.a_struct(own=True)
    a = i.fresh('Za')
    i.raw([(0, 'alias %s = String' % a)])
    r = i.route(i.fresh('zq_route'))
    refs = {
        'unknown-tag-kind': ':foo:`bar`',
        'bad-val': ':val:`nope`',
        'link-without-space': ':link:`http://nospace`',
        'unknown-type': ':type:`ZqNoSuchType`',
        'type-is-alias': ':type:`%s`' % a,
        'type-is-route': ':type:`%s`' % r,
        'unknown-field': ':field:`zq_no_such_field`',
        'unknown-field-of-type': ':field:`%s.zq_no_such_field`' % s,
        'field-of-unknown-type': ':field:`ZqNoSuchType.f`',
        'field-of-route': ':field:`%s.f`' % r,
        'unknown-route': ':route:`zq_no_such_route`',
        'route-undefined-version': ':route:`%s:7`' % r,
        'route-is-type': ':route:`%s`' % s,
        'type-unknown-namespace': ':type:`zq_nowhere.T`',
        'route-unknown-namespace': ':route:`zq_nowhere.r`',
        'field-of-alias': ':field:`%s.f`' % a,
        'route-bad-version': ':route:`%s:x`' % r,
        'route-empty-version': ':route:`%s:`' % r,
    }
    if i.ns['imports'] and i.g.p(15):
        other = i.g.choice(i.ns['imports'])
        refs = {'field-imported-ns-type-only': ':field:`%s.ZqT`' % other,
                'field-imported-ns-unknown-type': ':field:`%s.ZqNoSuchType.f`' % other,
                'field-imported-ns-only': ':field:`%s.`' % other}
    if i.g.p(10):
        an = i.fresh('Zan')
        i.raw([(0, 'annotation %s = Deprecated()' % an)])
        refs = {'field-of-annotation': ':field:`%s.f`' % an, 'type-is-annotation': ':type:`%s`' % an,
                'route-is-annotation': ':route:`%s`' % an}
    kind = i.g.choice(sorted(refs))
    doc = '"see %s here"' % refs[kind]
    pos = i.g.choice(['struct', 'field', 'union', 'tag', 'route'])
    if pos == 'struct':
        i.raw([(0, 'struct %s' % i.fresh()), (1, doc), (1, 'zf String')])
    elif pos == 'field':
        i.raw([(0, 'struct %s' % i.fresh()), (1, 'zf String'), (2, doc)])
    elif pos == 'union':
        i.raw([(0, 'union %s' % i.fresh()), (1, doc), (1, 'zt')])
    elif pos == 'tag':
        i.raw([(0, 'union %s' % i.fresh()), (1, 'zt'), (2, doc)])
    else:
        i.route(i.fresh('zq_route'), doc=doc)
    return '%s|%s' % (kind, pos)


# ---------------------------------------------------------------------------------------
# annotations  (test_annotations, test_custom_annotations)

@rule
def r_bad_annotation_use(i):
    names = {k: i.fresh('Zn') for k in ('dep', 'dep2', 'prev', 'om', 'om2', 'blot', 'hash')}
    i.raw([(0, 'annotation %s = Deprecated()' % names['dep']), (0, 'annotation %s = Deprecated()' % names['dep2']),
           (0, 'annotation %s = Preview()' % names['prev']), (0, 'annotation %s = Omitted("a")' % names['om']),
           (0, 'annotation %s = Omitted("b")' % names['om2']), (0, 'annotation %s = RedactedBlot()' % names['blot']),
           (0, 'annotation %s = RedactedHash()' % names['hash'])])
    s, _ = i.a_struct()
    kinds = {
        'deprecated-and-preview': ('String', ['dep', 'prev']),
        'deprecated-twice': ('String', ['dep', 'dep2']),
        'omitted-twice': ('String', ['om', 'om2']),
        'two-redactors': ('String', ['blot', 'hash']),
        'redactor-on-user-type': (s, ['blot']),
        'redactor-on-list-of-user-type': ('List(%s)' % s, ['hash']),
    }
    kind = i.g.choice(sorted(kinds) + ['redactor-on-void-tag', 'redactor-on-alias-reference',
                                       'redactor-on-redacted-alias', 'omitted-on-alias', 'deprecated-on-alias',
                                       'annotation-on-annotation-type-param'])
    if kind in kinds:
        t, ans = kinds[kind]
        i.raw([(0, 'struct %s' % i.fresh()), (1, 'zf %s' % t)] + [(2, '@%s' % names[a]) for a in ans])
    elif kind == 'redactor-on-void-tag':
        i.raw([(0, 'union %s' % i.fresh()), (1, 'zt'), (2, '@%s' % names['blot'])])
    elif kind == 'redactor-on-alias-reference':
        a = i.fresh('Za')
        i.raw([(0, 'alias %s = String' % a)])
        i.raw([(0, 'struct %s' % i.fresh()), (1, 'zf %s' % a), (2, '@%s' % names['hash'])])
    elif kind == 'redactor-on-redacted-alias':
        a, b = i.fresh('Za'), i.fresh('Za')
        i.raw([(0, 'alias %s = String' % a), (1, '@%s' % names['blot'])])
        mid, _ = i.via_alias(a, i.g.int(0, 2))
        i.raw([(0, 'alias %s = %s' % (b, mid)), (1, '@%s' % names['hash'])])
    elif kind == 'omitted-on-alias':
        i.raw([(0, 'alias %s = String' % i.fresh('Za')), (1, '@%s' % names['om'])])
    elif kind == 'deprecated-on-alias':
        i.raw([(0, 'alias %s = String' % i.fresh('Za')), (1, '@%s' % names[i.g.choice(['dep', 'prev'])])])
    else:
        i.raw([(0, 'annotation_type %s' % i.fresh()), (1, 'zp String'), (2, '@%s' % names['dep'])])
    return kind


@rule
def r_bad_custom_annotation(i):
    at = i.fresh()
    i.raw([(0, 'annotation_type %s' % at), (1, 'zp1 String'), (1, 'zp2 Int32 = 3'), (1, 'zp3 Boolean?')])
    kinds = {
        'too-many-args': '%s("a", 1, true, 4)' % at,
        'unknown-keyword': '%s(zp1="a", znope=1)' % at,
        'missing-required': '%s(zp2=1)' % at,
        'missing-required-positional': '%s()' % at,
        'wrong-type-positional': '%s(1)' % at,
        'wrong-type-keyword': '%s(zp1="a", zp2="x")' % at,
        'mixed-positional-keyword': '%s("a", zp2=1)' % at,
        'undefined-annotation-type': 'ZqNoSuchAnnotationType()',
        'not-an-annotation-type': None,
    }
    kind = i.g.choice(sorted(kinds) + ['redefine-builtin', 'void-param', 'non-primitive-param',
                                       'nullable-param-with-default', 'duplicate-param', 'bad-param-default'])
    if kind in kinds:
        expr = kinds[kind]
        if kind == 'not-an-annotation-type':
            s, _ = i.a_struct(own=True)
            expr = '%s()' % s
        i.raw([(0, 'annotation %s = %s' % (i.fresh('Zn'), expr))])
    elif kind == 'redefine-builtin':
        i.raw([(0, 'annotation_type %s' % i.g.choice(['Omitted', 'Deprecated', 'RedactedBlot'])), (1, 'zp String')])
    elif kind == 'void-param':
        i.raw([(0, 'annotation_type %s' % i.fresh()), (1, 'zp Void')])
    elif kind == 'non-primitive-param':
        s, _ = i.a_struct()
        i.raw([(0, 'annotation_type %s' % i.fresh()), (1, 'zp %s' % i.g.choice([s, 'List(String)', 'Map(String, String)']))])
    elif kind == 'nullable-param-with-default':
        i.raw([(0, 'annotation_type %s' % i.fresh()), (1, 'zp String? = "x"')])
    elif kind == 'duplicate-param':
        i.raw([(0, 'annotation_type %s' % i.fresh()), (1, 'zp String'), (1, 'zp Int32')])
    else:
        i.raw([(0, 'annotation_type %s' % i.fresh()), (1, 'zp Int32 = "x"')])
    return kind


# ---------------------------------------------------------------------------------------

def apply_text_edit(specs, edit):
    """Text-level violations on the rendered files."""
    kind, pos, amount = edit
    specs = list(specs)
    if kind == 'indent_off':
        cands = []
        for fi, (p, text) in enumerate(specs):
            in_str = False
            for li, ln in enumerate(text.split('\n')):
                starts_in_str = in_str
                # track multi-line strings: escapes inside strings, comments outside them
                k = 0
                while k < len(ln):
                    c = ln[k]
                    if in_str:
                        if c == '\\':
                            k += 1
                        elif c == '"':
                            in_str = False
                    elif c == '#':
                        break
                    elif c == '"':
                        in_str = True
                    k += 1
                if starts_in_str or not ln.strip() or ln.lstrip().startswith('#') or not ln.startswith('    '):
                    continue
                cands.append((fi, li))
        if not cands:
            return None
        fi, li = cands[pos % len(cands)]
        p, text = specs[fi]
        lines = text.split('\n')
        lines[li] = ' ' * amount + lines[li]
        specs[fi] = (p, '\n'.join(lines))
        return specs
    if kind == 'drop_namespace':
        cands = [fi for fi, (p, text) in enumerate(specs)
                 if any(ln and not ln.startswith((' ', '#', 'namespace')) for ln in text.split('\n'))]
        if not cands:
            return None
        fi = cands[pos % len(cands)]
        p, text = specs[fi]
        lines = text.split('\n')
        k = [j for j, ln in enumerate(lines) if ln.startswith('namespace ')][0]
        # drop the namespace line and its indented doc block
        j = k + 1
        while j < len(lines) and (not lines[j].strip() or lines[j].startswith(' ')):
            j += 1
        specs[fi] = (p, '\n'.join(lines[:k] + lines[j:]))
        return specs
    raise AssertionError(kind)


INJECT_CFG = dict(max_ns=3, max_types=5, max_fields=3, max_routes=2, type_depth=2)


RULE_WEIGHT = {'bad_type_arguments': 6, 'bad_doc_reference': 4, 'bad_struct_example': 4, 'bad_default_value': 4,
               'bad_annotation_use': 2, 'bad_custom_annotation': 2, 'bad_route_attrs': 2, 'undefined_symbol': 2,
               'patch_kind_mismatch': 2, 'enumerated_subtypes': 2, 'duplicate_field': 2, 'bad_union_example': 2,
               'default_on_nullable': 2, 'illegal_parent_kind': 2}


@st.composite
def injected(draw, rules=None):
    """-> {'rule', 'ctx', 'specs'}: a valid model with exactly one rule violation."""
    api = draw(gen.api_models(gen.Cfg(**INJECT_CFG)))
    names = sorted(rules or RULES)
    if rules is None:
        # rules with many variants are drawn proportionally more often, so that each variant is met
        names = sorted(n for n in names for _ in range(RULE_WEIGHT.get(n, 1)))
    for _ in range(6):
        name = draw(st.sampled_from(names))
        inj = I(draw, api)
        ctx = RULES[name](inj)
        if ctx is None:
            continue
        lay = draw(render.layouts(inj.api)) if draw(st.integers(0, 2)) else None
        specs, _ = render.render(inj.api, lay)
        if inj.text_edit:
            specs = apply_text_edit(specs, inj.text_edit)
            if specs is None:
                continue
        return {'rule': name, 'ctx': ctx, 'specs': specs,
                'multi_file': len(specs) > 1, 'features': sorted(gen.features(api))}
    return {'rule': None, 'ctx': None, 'specs': None}
