"""Hypothesis strategies producing API models that are valid by construction.

Every constraint below cites where the rule comes from (docs/lang_ref.rst = LR, or the
pinned test in test/test_stone.py that asserts the corresponding error message).
"""
import keyword

from hypothesis import strategies as st

from . import model as M
from .model import prim

# ---------------------------------------------------------------------------------------
# identifier pools (DESIGN 2.1 "Identifier domain"): snake_case for namespaces, fields, tags,
# routes; PascalCase words for types; never a Stone keyword, never a Python keyword.

NS_WORDS = ['files', 'users', 'common', 'team', 'sharing', 'auth', 'paper', 'props', 'check',
            'namespace_log', 'async_jobs', 'contacts']
SNAKE = ['name', 'path', 'size', 'count', 'rev', 'cursor', 'mode', 'owner', 'value', 'flag',
         'data', 'info', 'entry', 'item', 'kind', 'status', 'namespace_id', 'limit', 'offset',
         'title', 'email', 'age', 'created', 'updated', 'parent_rev', 'is_deleted', 'x', 'y1',
         'color', 'shape', 'total', 'reason', 'member', 'policy', 'link', 'quota', 'locale']
PASCAL = ['File', 'Folder', 'Metadata', 'Account', 'Entry', 'Result', 'Failure', 'Arg', 'Info',
          'Team', 'Member', 'Policy', 'Link', 'Batch', 'Cursor', 'Status', 'Mode', 'Resource',
          'NamespaceInfo', 'Item', 'Shape', 'Point', 'Quota', 'Space', 'Photo', 'Video', 'Name',
          'Color', 'Rule', 'Plan', 'Group', 'Token', 'Event', 'Log']
ROUTE_WORDS = ['get_metadata', 'list_folder', 'upload', 'download', 'copy', 'move', 'search',
               'create', 'remove', 'get_account', 'list/continue', 'check', 'get_namespace_x',
               'restore', 'share', 'users/add', 'token_revoke']
TAG_WORDS = ['active', 'inactive', 'pending', 'basic', 'pro', 'business', 'point', 'square',
             'circle', 'add', 'sub', 'file', 'folder', 'deleted', 'anything', 'vegan', 'path',
             'not_found', 'no_permission', 'too_large', 'namespace_gone', 'reset', 'ok', 'full',
             'left', 'right', 'up', 'down', 'red', 'green', 'blue', 'small', 'big']
CALLERS = ['internal', 'alpha', 'beta', 'team_admin', 'teamAdmin', 'Internal', 'ADMIN', 'x__y']   # any identifier-shaped permission name (the docs' examples are lower case; the name is an opaque string to the runtime)
DOC_WORDS = ['the', 'value', 'of', 'this', 'field', 'is', 'used', 'when', 'a', 'namespace',
             'user', 'requests', 'data', "it's", 'never', '"quoted"', 'back\\slash', 'café',
             '数', 'x<y', '100%', '{braces}', '{0}', '%s', '#hash', "'single'", 'e.g.', ':colon:',
             'see', '`tick', 'struct', 'union', 'route', 'deprecated', 'by', '\U0001F600']
RESERVED_SNAKE = M.STONE_KEYWORDS | set(keyword.kwlist) | {'other', 'self', 'None', 'True', 'False'}

TS_FORMATS = ['%Y-%m-%dT%H:%M:%SZ', '%Y-%m-%d', '%a, %d %b %Y %H:%M:%S +0000',
              '%Y-%m-%dT%H:%M:%S.%fZ', '%Y/%m/%d %H:%M', '%Y%m%d']

# pattern -> (alphabet sampler description) ; each entry: (pattern, min_len, max_len|None, kind)
# kind drives values.sample_pattern(); patterns are used as written in specs (backslashes are
# doubled by the renderer).
PATTERNS = [
    ('[a-z]+', 1, None, 'lower'),
    ('[a-z]*', 0, None, 'lower'),
    ('\\d{3}', 3, 3, 'digit'),
    ('[0-9a-f]{2,8}', 2, 8, 'hex'),
    ('(/(.|[\\r\\n])*)?', 0, None, 'pathlike'),
    ('^[^@]+@[^@]+\\.[^@]+$', 5, None, 'email'),
    ('ab|cd', 2, 2, 'abcd'),
    ('[A-Z][a-z]{1,5}', 2, 6, 'capword'),
    ('id:.+', 4, None, 'idcolon'),
    ('[^"]+', 1, None, 'noquote'),          # a pattern that itself contains a quoting character
]


BUILTIN_ANNOTATION_KINDS = ('Omitted', 'Deprecated', 'Preview', 'RedactedBlot', 'RedactedHash')


class Cfg:
    """Feature switches selecting sub-domains per property."""

    def __init__(self, **kw):
        self.max_ns = 4
        self.max_types = 7            # user types + aliases per namespace
        self.max_fields = 5
        self.max_routes = 4
        self.type_depth = 3
        self.py_safe = True
        self.docs = True
        self.docrefs = True
        self.annotations = True
        self.custom_annotations = True
        self.patches = True
        self.examples = True
        self.routes = True
        self.schema = 'generic'       # None | 'generic' | 'plain' (no union/Timestamp attrs) | 'swift'
        self.wild_strings = False     # include >=4-space runs / exotic line separators
        self.bytes_ts_defaults = False
        self.alias_tag_defaults = False
        self.route_io_any = True      # allow primitives / lists as route arg/result/error
        self.void_in_containers = False
        self.ns_docs = True
        self.min_types = 0
        self.redactors = True
        self.union_struct_bias = False
        self.route_container_bias = False  # C20: route results / errors that are containers of user types
        self.avoid_word_namespace = False   # keep the word `namespace` out of identifiers and docs
        self.annot_bias = False       # C13: annotations in every namespace and on most members
        self.redact_map_bias = False  # C13: maps / lists whose element type is a redacted alias, not nullable (seeded C13_9)
        self.risky_literals = 0       # how many near-miss literals (C10) a spec may contain
        self.doc_escapes = False      # doc words like C:\\users (\\u... in generated docstrings)
        self.omitted = True           # Omitted(...) annotations (change what is encoded)
        self.union_chain_bias = False  # C07: more and longer union inheritance chains
        self.alias_nesting_bias = False  # C20: aliases of containers / nullables of other aliases
        self.nullable_aliases = False  # `alias N = String?`: stone treats fields of such a type
        #                                inconsistently (DESIGN 5) -> only the frontend checks enable it
        for k, v in kw.items():
            if not hasattr(self, k):
                raise TypeError(k)
            setattr(self, k, v)


class G:
    """Draw helper: every random choice goes through Hypothesis."""

    def __init__(self, draw):
        self.draw = draw

    def int(self, lo, hi):
        return self.draw(st.integers(lo, hi))

    def p(self, percent):
        """True with the given percentage; shrinks towards False."""
        return self.draw(st.integers(0, 99)) >= 100 - percent

    def choice(self, seq):
        seq = list(seq)
        return self.draw(st.sampled_from(seq))

    def subset(self, seq, percent=50):
        return [x for x in seq if self.p(percent)]

    def weighted(self, pairs):
        total = sum(w for w, _ in pairs)
        r = self.int(0, total - 1)
        for w, v in pairs:
            if r < w:
                return v
            r -= w
        raise AssertionError


class Namer:
    def __init__(self, g):
        self.g = g

    avoid = None

    def fresh(self, pool, taken, canon=lambda s: s, extra_ok=lambda s: True):
        g = self.g
        if self.avoid:
            pool = [w for w in pool if self.avoid not in w.lower()]
        base = g.choice(pool)
        if g.p(25):
            second = g.choice(pool)
            if pool is PASCAL:
                base = base + second
            elif '/' not in base and '/' not in second:
                base = base + '_' + second
        cand = base
        k = 1
        while canon(cand) in taken or not extra_ok(cand):
            k += 1
            cand = '%s%d' % (base, k)
        taken.add(canon(cand))
        return cand


# ---------------------------------------------------------------------------------------
# primitive types with parameters (LR "Basic Types" table)

def gen_int_type(g, name=None):
    name = name or g.choice(M.INTS)
    lo, hi = M.INT_RANGES[name]
    params = {}
    if g.p(35):
        cands = sorted({lo, hi, 0, 1, -1, 5, 100, lo + 1, hi - 1, 120} & set(
            v for v in (lo, hi, 0, 1, -1, 5, 100, lo + 1, hi - 1, 120) if lo <= v <= hi))
        a = g.choice(cands)
        b = g.choice(cands)
        a, b = min(a, b), max(a, b)
        kind = g.int(0, 2)
        if kind in (0, 2):
            params['min_value'] = a
        if kind in (1, 2):
            params['max_value'] = b
    return prim(name, **params)


def gen_float_type(g, name=None):
    name = name or g.choice(M.FLOATS)
    params = {}
    if g.p(35):
        cands = [-1e30, -1.5, -1, 0, 0.0, 0.5, 1, 2.5, 100, 1e30]
        if name == 'Float64':
            cands += [-1.7e308, 1.7e308, 5e-324]
        else:
            cands += [-3.4e38, 3.4e38]
        a = g.choice(cands)
        b = g.choice(cands)
        if a > b:
            a, b = b, a
        kind = g.int(0, 2)
        if kind in (0, 2):
            params['min_value'] = a
        if kind in (1, 2):
            params['max_value'] = b
    return prim(name, **params)


def gen_string_type(g, allow_pattern=True):
    params = {}
    r = g.int(0, 9)
    if r <= 4:
        pass
    elif r <= 6 or not allow_pattern:
        a = g.choice([0, 1, 2, 3, 8])
        b = g.choice([1, 2, 3, 8, 40])
        if b < a:
            a, b = b, a
        kind = g.int(0, 2)
        if kind in (0, 2):
            params['min_length'] = a
        if kind in (1, 2):
            params['max_length'] = max(1, b)
    else:
        pat, lo, hi, _ = g.choice(PATTERNS)
        params['pattern'] = pat
        if g.p(30):
            # length bounds compatible with the pattern's own range
            if g.p(50):
                params['min_length'] = lo
            if g.p(50):
                params['max_length'] = max(1, hi if hi is not None else lo + 12)
    return prim('String', **params)


def gen_prim(g, allow_void=False, kinds=None):
    kinds = kinds or [(20, 'String'), (14, 'int'), (8, 'float'), (6, 'Boolean'), (4, 'Bytes'),
                      (5, 'Timestamp')] + ([(3, 'Void')] if allow_void else [])
    k = g.weighted(kinds)
    if k == 'String':
        return gen_string_type(g)
    if k == 'int':
        return gen_int_type(g)
    if k == 'float':
        return gen_float_type(g)
    if k == 'Timestamp':
        return prim('Timestamp', format=g.choice(TS_FORMATS))
    return prim(k)


# ---------------------------------------------------------------------------------------

class Builder:
    def __init__(self, draw, cfg):
        self.g = G(draw)
        self.cfg = cfg
        self.namer = Namer(self.g)
        if cfg.avoid_word_namespace:
            self.namer.avoid = 'namespace'
        self.api = {'namespaces': [], 'schema': None}
        self.rank = {}        # (ns, name) -> global creation order, used to keep graphs acyclic
        self.canon_taken = set()   # stone's global canonical-name table (name+ns, see
        #                            test_name_clash / test_name_conflicts)

    # -- skeleton --------------------------------------------------------------------------
    def build(self):
        g, cfg = self.g, self.cfg
        n_ns = g.int(1, cfg.max_ns)
        taken = set()
        names = [self.namer.fresh(NS_WORDS, taken, extra_ok=lambda s: s != 'stone_cfg')
                 for _ in range(n_ns)]
        for i, name in enumerate(names):
            ns = {'name': name, 'doc': None, 'doc2': None, 'imports': [], 'defs': []}
            # LR "Import": two namespaces cannot import each other -> imports follow index order
            for j in range(i):
                if g.p(55):
                    ns['imports'].append(names[j])
            self.api['namespaces'].append(ns)
            self.canon_taken.add(M.canon(name) + M.canon(name))
        for ns in self.api['namespaces']:
            self.declare_types(ns)
        self.idx = M.Index(self.api)
        for ns in self.api['namespaces']:
            if cfg.annotations:
                self.fill_annotations(ns)
        for ns in self.api['namespaces']:
            self.fill_aliases(ns)
        for ns in self.api['namespaces']:
            self.fill_inheritance(ns)
        for ns in self.api['namespaces']:
            self.fill_members(ns)
        self.shape_permission_family()
        self.tags_named_like_fields()
        self.sibling_twins()
        self.repair_inhabited()
        if cfg.routes:
            if cfg.schema:
                self.make_schema()
            for ns in self.api['namespaces']:
                self.fill_routes(ns)
        self.fill_defaults_from_unions()
        if cfg.docs:
            self.fill_docs()
        self.force_docs()
        if cfg.examples:
            from .examples import add_examples
            add_examples(self)
        return self.api

    def new_type_name(self, ns, pool=PASCAL):
        nsc = M.canon(ns['name'])

        def ok(s):
            return (s not in M.PRIMS and s not in ('List', 'Map') and M.canon(s) != nsc
                    and M.canon(s) + nsc not in self.canon_taken
                    and s not in RESERVED_SNAKE)
        local = ns.setdefault('_taken', set())
        name = self.namer.fresh(pool, local, canon=M.canon, extra_ok=ok)
        self.canon_taken.add(M.canon(name) + nsc)
        return name

    def declare_types(self, ns):
        g, cfg = self.g, self.cfg
        n = g.int(cfg.min_types, cfg.max_types)
        for _ in range(n):
            kind = g.weighted([(35, 'struct'), (50, 'union'), (15, 'alias')] if cfg.union_chain_bias and g.p(50)
                              else [(45, 'struct'), (30, 'union'), (25, 'alias')])
            name = self.new_type_name(ns)
            if kind == 'struct':
                d = {'k': 'struct', 'name': name, 'parent': None, 'doc': None, 'fields': [],
                     'subtypes': None, 'examples': [], 'patch': 0}
            elif kind == 'union':
                d = {'k': 'union', 'name': name, 'closed': g.p(35), 'parent': None, 'doc': None,
                     'tags': [], 'examples': [], 'patch': 0}
            else:
                d = {'k': 'alias', 'name': name, 'type': None, 'doc': None, 'annots': []}
            self.rank[(ns['name'], name)] = len(self.rank)
            ns['defs'].append(d)

    # -- visibility ------------------------------------------------------------------------
    def visible_ns(self, ns):
        return [ns['name']] + list(ns['imports'])

    def visible(self, ns, kinds):
        out = []
        for nname in self.visible_ns(ns):
            for d in self.idx.ns[nname]['defs']:
                if d['k'] in kinds:
                    out.append((nname, d))
        return out

    # -- annotations -------------------------------------------------------------------------
    def fill_annotations(self, ns):
        g, cfg = self.g, self.cfg
        if not (cfg.annot_bias or g.p(45)):
            return
        defs = []
        if cfg.custom_annotations and g.p(40):
            for _ in range(g.int(1, 2)):
                name = self.new_type_name(ns)
                params = []
                taken = set()
                for _ in range(g.int(0, 3)):
                    pname = self.namer.fresh(SNAKE, taken, extra_ok=lambda s: s not in RESERVED_SNAKE)
                    # LR "Custom annotations": parameters can only be primitives (possibly nullable)
                    t = gen_prim(g, kinds=[(5, 'String'), (4, 'int'), (2, 'float'), (3, 'Boolean')])
                    p = {'name': pname, 'type': t, 'doc': None, 'default': None, 'annots': []}
                    r = g.int(0, 2)
                    if r == 0:
                        p['type'] = ('nullable', t)
                    elif r == 1:
                        p['default'] = ('lit', self.literal_for(t))
                    params.append(p)
                defs.append({'k': 'annotation_type', 'name': name, 'doc': None, 'params': params})
        forced = []
        if cfg.annot_bias and cfg.omitted and g.p(60):
            forced += ['Omitted'] * g.int(2, 3)
        if cfg.annot_bias and cfg.custom_annotations and g.p(50):
            forced += ['custom', 'custom']
            while len([d for d in defs if d['k'] == 'annotation_type']) < 2:
                defs.append({'k': 'annotation_type', 'name': self.new_type_name(ns), 'doc': None,
                             'params': [{'name': 'level', 'type': prim('Int32'), 'doc': None,
                                         'default': ('lit', len(defs)), 'annots': []}]})
        used_callers = []
        used_custom = []
        for _ in range(g.int(1, 4) + len(forced)):
            kinds = [(2, 'Deprecated'), (2, 'Preview')] + ([(4, 'Omitted')] if cfg.omitted else [])
            if cfg.redactors:
                kinds += [(3, 'RedactedBlot'), (3, 'RedactedHash')]
            customs = [d for d in defs if d['k'] == 'annotation_type']
            if customs:
                kinds.append((4, 'custom'))
            kind = forced.pop() if forced else g.weighted(kinds)
            name = self.new_type_name(ns)
            a = {'k': 'annotation', 'name': name, 'atype': (None, kind), 'args': [], 'kwargs': {}}
            if kind == 'Omitted':
                fresh_callers = [c for c in CALLERS if c not in used_callers] or CALLERS
                a['args'] = [g.choice(fresh_callers)]
                used_callers.append(a['args'][0])
            elif kind in ('RedactedBlot', 'RedactedHash'):
                if g.p(50):
                    a['args'] = [g.choice(['[a-z]+', '(\\d)\\d*', '(^.)', 'x(.*)y', '(a)|(b)'])]
            elif kind == 'custom':
                at = g.choice([c for c in customs if c['name'] not in used_custom] or customs)
                used_custom.append(at['name'])
                a['atype'] = (None, at['name'])
                # LR: all positional or all keyword, never mixed
                vals = []
                for p in at['params']:
                    base = self.idx_free_base(p['type'])
                    vals.append((p, self.literal_for(base)))
                if g.p(50):
                    # positional prefix; the rest must be optional
                    k = len(vals)
                    while k > 0 and (vals[k - 1][0]['default'] is not None or
                                     vals[k - 1][0]['type'][0] == 'nullable') and g.p(50):
                        k -= 1
                    a['args'] = [v for _, v in vals[:k]]
                else:
                    for p, v in vals:
                        optional = p['default'] is not None or p['type'][0] == 'nullable'
                        if not optional or g.p(60):
                            a['kwargs'][p['name']] = v
            defs.append(a)
        ns['defs'].extend(defs)
        self.idx = M.Index(self.api)

    @staticmethod
    def idx_free_base(t):
        return t[1] if t[0] == 'nullable' else t

    def visible_annotations(self, ns):
        """(ns, name, kind) of every annotation usable from `ns` (own or imported namespace)."""
        out = []
        for nname in self.visible_ns(ns):
            for d in self.idx.ns[nname]['defs']:
                if d['k'] == 'annotation':
                    k = d['atype'][1]
                    kk = k if k in ('Omitted', 'Deprecated', 'Preview', 'RedactedBlot',
                                    'RedactedHash') else 'custom'
                    out.append((nname, d['name'], kk))
        return out

    def pick_annotations(self, ns, can_redact, is_alias_def=False):
        """test_annotations: one of each built-in kind, Deprecated xor Preview, one redactor;
        redactors not on user-defined / void types nor on references to aliases; aliases take
        only redactors and custom annotations.  Entries are absolute (namespace, name)."""
        g = self.g
        if not self.cfg.annotations or not g.p(75 if self.cfg.annot_bias else 30):
            return []
        out = []
        groups = set()
        avail = self.visible_annotations(ns)
        for _ in range(g.int(1, 3)):
            if not avail:
                break
            a = g.choice(avail)
            kind = a[2]
            group = {'RedactedBlot': 'red', 'RedactedHash': 'red', 'Deprecated': 'dp',
                     'Preview': 'dp'}.get(kind, kind)
            if group in groups and group != 'custom':
                continue
            if is_alias_def and group not in ('red', 'custom'):
                continue
            if group == 'red' and not can_redact:
                continue
            if (a[0], a[1]) in out:
                continue
            groups.add(group)
            out.append((a[0], a[1]))
        return out

    def redactable(self, t):
        """LR "Redaction": only string and numeric typed values; test_annotations: not through
        references to aliases or user types; containers of eligible primitives are fine."""
        if t is None:
            return False
        for sub in M.walk_types(t):
            if sub[0] in ('alias', 'ref'):
                return False
        b = t
        while b[0] in ('nullable', 'list', 'map'):
            b = b[2] if b[0] == 'map' else b[1]
        return b[0] == 'prim' and b[1] in M.INTS + M.FLOATS + ('String',)

    def annotation_kind(self, a):
        d = self.idx.get(a[0], a[1])
        return d['atype'][1]

    def has_redactor(self, annots):
        return any(self.annotation_kind(a) in ('RedactedBlot', 'RedactedHash') for a in annots)

    # -- aliases -----------------------------------------------------------------------------
    def fill_aliases(self, ns):
        g = self.g
        for d in ns['defs']:
            if d['k'] != 'alias':
                continue
            me = (ns['name'], d['name'])
            earlier = [('alias', n_, a_['name']) for n_, a_ in self.visible(ns, ('alias',))
                       if a_['type'] is not None and self.rank[(n_, a_['name'])] < self.rank[me]
                       and not self.idx.is_nullable(('alias', n_, a_['name']))] if self.cfg.alias_nesting_bias else []
            if self.cfg.annot_bias and g.p(50):
                t = g.choice([prim('String'), prim('Int64'), prim('UInt32'), prim('Float64')])
            elif self.cfg.alias_nesting_bias and g.p(20) and self.visible(ns, ('struct', 'union')):
                # an alias of a container / nullable of a user type: examples of fields typed by it name labels
                n_, d_ = g.choice(self.visible(ns, ('struct', 'union')))
                r_ = ('ref', n_, d_['name'])
                t = g.choice([('list', r_, None, None), ('map', prim('String'), r_), ('list', ('nullable', r_), None, None),
                              ('map', prim('String'), ('list', r_, None, None))] +
                             ([('nullable', r_)] if self.cfg.nullable_aliases else []))
            elif self.cfg.alias_nesting_bias and ns['imports'] and g.p(20) and \
                    [x for x in self.visible(ns, ('struct', 'union')) if x[0] != ns['name']]:
                # an alias of a user type of an imported namespace (the middle link of a chain over three namespaces)
                n_, d_ = g.choice([x for x in self.visible(ns, ('struct', 'union')) if x[0] != ns['name']])
                t = ('ref', n_, d_['name'])
            elif earlier and g.p(55):
                # an alias reached only through another alias, below a nullable and / or a container;
                # preferably an alias of another namespace whose own target lives in a third one
                far = [x for x in earlier if x[1] != ns['name'] and
                       any(sub[0] in ('ref', 'alias') and sub[1] not in (ns['name'], x[1])
                           for sub in M.walk_types(self.idx.get(x[1], x[2])['type']))]
                foreign = [x for x in earlier if x[1] != ns['name']]
                a_ = g.choice(far if far and g.p(60) else foreign if foreign and g.p(50) else earlier)
                t = a_ if g.p(45) else g.choice(
                    [('list', ('nullable', a_), None, None), ('map', prim('String'), ('nullable', a_)),
                     ('list', a_, None, None), ('map', prim('String'), ('list', a_, None, None))] +
                    ([('nullable', a_)] if self.cfg.nullable_aliases else []))
            else:
                t = self.gen_type(ns, depth=g.int(0, 2), allow_nullable=self.cfg.nullable_aliases,
                                  max_rank=self.rank[me])
            d['type'] = t
            d['annots'] = self.pick_annotations(ns, self.alias_redactable(t), is_alias_def=True)
            if self.cfg.annot_bias and self.cfg.custom_annotations and g.p(40):
                # custom annotations of several annotation types on one alias: the backends collect
                # them per annotation type (sets / dicts on the way)
                by_type = {}
                for a in self.visible_annotations(ns):
                    if a[2] == 'custom':
                        by_type.setdefault(tuple(self.idx.get(a[0], a[1])['atype']), a)
                if len(by_type) >= 2:
                    kinds = g.subset(sorted(by_type), 70)
                    if len(kinds) < 2:
                        kinds = sorted(by_type)[:2]
                    keep = [a for a in d['annots'] if self.annotation_kind(a) in BUILTIN_ANNOTATION_KINDS]
                    d['annots'] = keep + [(by_type[k][0], by_type[k][1]) for k in kinds]

    def alias_redactable(self, t):
        """test_annotations: 'A redactor has already been defined' anywhere along the chain;
        the resolved leaf must be a string or numeric primitive."""
        stack = [t]
        while stack:
            cur = stack.pop()
            if cur[0] == 'alias':
                a = self.idx.get(cur[1], cur[2])
                if a['type'] is None or self.has_redactor(a['annots']):
                    return False
                stack.append(a['type'])
            elif cur[0] in ('nullable', 'list'):
                stack.append(cur[1])
            elif cur[0] == 'map':
                stack.append(cur[2])
        return self.redactable(self.idx.deep_unalias(t))

    # -- type expressions ----------------------------------------------------------------------
    def gen_type(self, ns, depth, allow_nullable=True, max_rank=None, allow_alias=True,
                 user_weight=25):
        """Random type expression visible from `ns`. `max_rank` restricts alias references to
        aliases created earlier (test_alias: alias cycles are errors)."""
        g = self.g
        users = self.visible(ns, ('struct', 'union'))
        aliases = [(n, d) for n, d in self.visible(ns, ('alias',))
                   if d['type'] is not None and
                   (max_rank is None or self.rank[(n, d['name'])] < max_rank)] if allow_alias else []
        opts = [(50, 'prim')]
        if users:
            opts.append((user_weight, 'ref'))
        if aliases:
            opts.append((10, 'alias'))
        if depth > 0:
            opts += [(10, 'list'), (6, 'map')]
        k = g.weighted(opts)
        if k == 'prim':
            t = gen_prim(g)
        elif k == 'ref':
            n, d = g.choice(users)
            t = ('ref', n, d['name'])
        elif k == 'alias':
            n, d = g.choice(aliases)
            t = ('alias', n, d['name'])
        elif k == 'list':
            inner = self.gen_type(ns, depth - 1, True, max_rank, allow_alias, user_weight)
            mn = mx = None
            if g.p(30):
                mn = g.choice([0, 1, 2])
            if g.p(30):
                mx = g.choice([1, 2, 3, 5])
                if mn is not None and mx < mn:
                    mx = mn if mn > 0 else 1
            t = ('list', inner, mn, mx)
        else:
            # LR table: map keys must be an instance of the String base type
            key = gen_string_type(g, allow_pattern=g.p(30)) if g.p(25) else prim('String')
            val = self.gen_type(ns, depth - 1, True, max_rank, allow_alias, user_weight)
            t = ('map', key, val)
        # test_nullable: no nullable of a nullable (also through aliases); Void never nullable
        if allow_nullable and g.p(22) and not self.idx.is_nullable(t):
            t = ('nullable', t)
        return t

    # -- inheritance ---------------------------------------------------------------------------
    def depth_of(self, ns, d):
        return len(self.idx.ancestors(ns, d))

    def fill_inheritance(self, ns):
        g = self.g
        me_ns = ns['name']
        for d in ns['defs']:
            if d['k'] == 'struct' and g.p(40):
                cands = [(n, p) for n, p in self.visible(ns, ('struct',))
                         if self.rank[(n, p['name'])] < self.rank[(me_ns, d['name'])]
                         and self.depth_of(n, p) < 3
                         # test_enumerated_subtypes: a listed subtype cannot be extended; all
                         # subtypes of an enumerating struct must be listed (hence same namespace)
                         and not (p.get('parent') and self.idx.get(*p['parent']).get('subtypes'))
                         and not (p.get('subtypes') and n != me_ns)]
                if cands:
                    n, p = g.choice(cands)
                    d['parent'] = (n, p['name'])
                    if p.get('subtypes'):
                        self.add_subtype(p, d)
            if d['k'] == 'union' and g.p(70 if self.cfg.union_chain_bias else 45 if self.cfg.union_struct_bias else 30):
                # test_union_semantics: a closed union cannot extend an open one
                cands = [(n, p) for n, p in self.visible(ns, ('union',))
                         if self.rank[(n, p['name'])] < self.rank[(me_ns, d['name'])]
                         and self.depth_of(n, p) < 3
                         and (not d['closed'] or not self.idx.is_open(n, p))]
                if cands:
                    deep = [c for c in cands if c[1].get('parent')]
                    # parents that already have a child: sibling unions share what they inherit
                    shared = [c for c in cands if self.idx.children(c[0], c[1]['name'])]
                    if shared and (self.cfg.union_chain_bias or self.cfg.union_struct_bias) and g.p(55):
                        n, p = g.choice(shared)
                    else:
                        n, p = g.choice(deep if deep and self.cfg.union_chain_bias and g.p(60) else cands)
                    d['parent'] = (n, p['name'])
        # choose enumerating roots: LR "Struct Polymorphism": root has no parent, lists its
        # subtypes (all of them), subtypes are leaves
        for d in ns['defs']:
            if d['k'] != 'struct' or d.get('parent') or d.get('subtypes'):
                continue
            kids = self.idx.children(me_ns, d['name'])
            if not kids or not g.p(55):
                continue
            if any(kn != me_ns for kn, _ in kids):
                continue
            if any(self.idx.children(kn, k['name']) for kn, k in kids):
                continue
            d['subtypes'] = {'closed': g.p(40), 'items': []}
            for _, k in kids:
                self.add_subtype(d, k)

    def add_subtype(self, root, kid):
        taken = {t for t, _ in root['subtypes']['items']}
        tag = self.namer.fresh(TAG_WORDS, taken, extra_ok=lambda s: s not in RESERVED_SNAKE)
        root['subtypes']['items'].append((tag, kid['name']))

    # -- members -------------------------------------------------------------------------------
    def names_in_family(self, ns, d):
        """Field / tag names already used by ancestors (test_struct_semantics: field already
        defined in parent) plus the subtype tags of an enumerating root (LR: type tags cannot
        match any field names; the generator also keeps subtype fields distinct from them)."""
        taken = set()
        for n, a in self.idx.chain(ns, d):
            for f in a.get('fields', a.get('tags', [])):
                taken.add(f['name'])
            if a.get('subtypes'):
                taken |= {t for t, _ in a['subtypes']['items']}
        return taken

    def sibling_twins(self):
        """Under union_struct_bias, one spec in three: a second child of some union's parent that declares a
        member with the *same name but another type* as its sibling (legal: siblings are unrelated types;
        whatever is kept per union family must not confuse them)."""
        g = self.g
        if not self.cfg.union_struct_bias or not g.p(33):
            return
        cands = [(n, d) for n, d in self.idx.types(('union',))
                 if d.get('parent') and not d.get('patch') and any(tg['type'] is not None for tg in d['tags'])]
        if not cands:
            return
        n, d = g.choice(cands)
        ns = self.idx.ns[n]
        tg = g.choice([x for x in d['tags'] if x['type'] is not None])
        base = self.idx.base(tg['type'])
        other = prim('Int64') if base == prim('String') or base[0] != 'prim' else prim('String')
        name = self.new_type_name(ns)
        twin = {'k': 'union', 'name': name, 'closed': d['closed'], 'parent': d['parent'], 'doc': None,
                'tags': [{'name': tg['name'], 'type': other, 'doc': None, 'annots': []}], 'examples': [], 'patch': 0}
        self.rank[(n, name)] = len(self.rank)
        ns['defs'].append(twin)
        self.idx = M.Index(self.api)

    def tags_named_like_fields(self):
        """Under union_struct_bias: name some struct-valued union tags after a field of the struct they
        carry (a plain struct member is flattened next to `.tag`, so its keys share an object with the
        tag's own name - json_serializer.rst "Union")."""
        g = self.g
        if not self.cfg.union_struct_bias:
            return
        for n, d in self.idx.types(('union',)):
            if d.get('patch'):
                continue
            for tg in d['tags']:
                t = tg['type']
                while t is not None and t[0] == 'nullable':
                    t = t[1]
                if t is None or t[0] != 'ref' or not g.p(25):
                    continue
                sd = self.idx.get(t[1], t[2])
                if sd['k'] != 'struct':
                    continue
                taken = set()
                stack = [self.idx.chain(n, d)[0]]      # the whole union family, from its root
                while stack:
                    nn, dd = stack.pop()
                    taken |= {x['name'] for x in dd.get('tags', [])}
                    stack += self.idx.children(nn, dd['name'])
                names = [f['name'] for _, _, f in self.idx.struct_all_fields(t[1], sd)
                         if f['name'] not in taken and f['name'] not in RESERVED_SNAKE and f['name'] != 'other']
                if names:
                    tg['name'] = g.choice(names)

    def shape_permission_family(self):
        """Under annot_bias: give one struct that has descendants two or more fields with *different*
        Omitted callers, so that permission maps are inherited (LR "Omitted"; the python backend emits
        one field-name map per caller of the whole ancestor chain)."""
        g, cfg = self.g, self.cfg
        if not (cfg.annotations and cfg.annot_bias and cfg.omitted) or not g.p(45):
            return
        parents = [(n, d) for n, d in self.idx.types(('struct',)) if self.idx.children(n, d['name'])]
        if not parents:
            return
        def depth(nn, dd, k=0):
            return max([depth(cn, cd, k + 1) for cn, cd in self.idx.children(nn, dd['name'])] or [k]) \
                if k < 6 else k
        deep = [(nn, dd) for nn, dd in parents if depth(nn, dd) >= 2]
        n, d = g.choice(deep if deep and g.p(70) else parents)
        ns = self.idx.ns[n]
        by_caller = {}
        for a in self.visible_annotations(ns):
            if a[2] == 'Omitted':
                by_caller.setdefault(self.idx.get(a[0], a[1])['args'][0], a)
        if len(by_caller) < 2:
            return
        taken = set()
        stack = [(n, d)]
        while stack:
            nn, dd = stack.pop()
            taken |= self.names_in_family(nn, dd)
            stack += self.idx.children(nn, dd['name'])
        callers = sorted(by_caller)
        keep = g.subset(callers, 70)
        if len(keep) < 2:
            keep = callers[:2]
        for c in keep:
            a = by_caller[c]
            name = self.namer.fresh(SNAKE, taken, extra_ok=lambda s: s not in RESERVED_SNAKE)
            t = g.choice([('nullable', prim('String')), ('nullable', prim('Int64')), prim('String'),
                          ('list', prim('String'), None, None)])
            d['fields'].append({'name': name, 'type': t, 'doc': None, 'default': None,
                                'annots': [(a[0], a[1])]})

    def fill_members(self, ns):
        g, cfg = self.g, self.cfg
        order = sorted([d for d in ns['defs'] if d['k'] in ('struct', 'union')],
                       key=lambda d: self.rank[(ns['name'], d['name'])])
        for d in order:
            taken = self.names_in_family(ns['name'], d)
            # descendants generated earlier cannot exist (rank order), so `taken` suffices
            if d['k'] == 'struct':
                # a child that only adds optional fields: whatever it requires, it requires through its ancestors
                only_optional = bool(d.get('parent')) and cfg.union_struct_bias and g.p(35)
                for _ in range(g.int(0, cfg.max_fields)):
                    name = self.namer.fresh(SNAKE, taken, extra_ok=lambda s: s not in RESERVED_SNAKE)
                    red_aliases = [('alias', n_, a_['name']) for n_, a_ in self.visible(ns, ('alias',))
                                   if a_['type'] is not None and (self.has_redactor(a_['annots']) or len(a_['annots']) >= 2)] \
                        if cfg.annot_bias else []
                    if red_aliases and g.p(35):
                        a_ = g.choice(red_aliases)
                        t = g.choice([a_, ('nullable', a_), ('list', a_, None, None),
                                      ('list', ('nullable', a_), None, None),
                                      ('map', prim('String'), ('nullable', a_)),
                                      ('nullable', ('list', a_, None, None))] +
                                     ([('map', prim('String'), a_), ('map', prim('String'), a_),
                                       ('nullable', ('list', ('map', prim('String'), a_), None, None))]
                                      if cfg.redact_map_bias else []))
                    elif cfg.annot_bias and g.p(40):
                        base = g.choice([prim('String'), prim('Int64'), prim('UInt64'), prim('Float64')])
                        t = g.choice([base, ('nullable', base), ('list', base, None, None),
                                      ('map', prim('String'), base), ('nullable', ('list', base, None, None))])
                    else:
                        t = self.gen_type(ns, g.int(0, cfg.type_depth))
                    if only_optional and not self.idx.is_nullable(t):
                        t = ('nullable', t)
                    f = {'name': name, 'type': t, 'doc': None, 'default': None, 'annots': []}
                    self.maybe_default(ns, f)
                    f['annots'] = self.pick_annotations(ns, self.redactable(t))
                    d['fields'].append(f)
                if cfg.patches and d['fields'] and g.p(15):
                    d['patch'] = g.int(1, len(d['fields']))
            else:
                # tags of the sibling unions generated so far (children of the same parent): a name may
                # legally recur there with another type, and per-family tables must not mix them up
                sib_tags = []
                if d['parent'] and (cfg.union_chain_bias or cfg.union_struct_bias):
                    for sn, sd in self.idx.children(d['parent'][0], d['parent'][1]):
                        if sd is not d:
                            sib_tags += [tg_['name'] for tg_ in sd.get('tags', [])]
                for _ in range(g.int(0 if d['parent'] else 1, cfg.max_fields)):
                    name = self.namer.fresh(TAG_WORDS, taken, extra_ok=lambda s: s not in RESERVED_SNAKE)
                    reuse = [x for x in sib_tags if x not in taken and x != 'other']
                    if reuse and g.p(55):
                        name = g.choice(reuse)
                        taken.add(name)
                    red_aliases = [('alias', n_, a_['name']) for n_, a_ in self.visible(ns, ('alias',))
                                   if a_['type'] is not None and (self.has_redactor(a_['annots']) or len(a_['annots']) >= 2)] \
                        if cfg.annot_bias else []
                    if red_aliases and g.p(25):
                        a_ = g.choice(red_aliases)
                        t = g.choice([a_, ('nullable', a_), ('list', ('nullable', a_), None, None)])
                    elif cfg.annot_bias and g.p(30):
                        # directly redactable members (seeded C13_7: a nullable tag annotated itself)
                        base = g.choice([prim('String'), prim('Int64'), prim('UInt64'), prim('Float64')])
                        t = g.choice([base, ('nullable', base), ('nullable', base), ('list', base, None, None),
                                      ('nullable', ('list', base, None, None))])
                    elif cfg.union_struct_bias and g.p(30):
                        # struct-valued members, preferring structs with enumerated subtypes:
                        # their wire form nests under the tag key instead of being flattened
                        structs = self.visible(ns, ('struct',))
                        trees = [x for x in structs if x[1].get('subtypes')]
                        # listed subtypes are plain structs on the wire although they sit in a tree
                        leaves = [x for x in structs if x[1].get('parent') and
                                  self.idx.get(*x[1]['parent']).get('subtypes')]
                        pool = trees if trees and g.p(45) else (leaves if leaves and g.p(45) else structs)
                        if pool:
                            n_, s_ = g.choice(pool)
                            r = ('ref', n_, s_['name'])
                            t = g.choice([r, ('nullable', r), ('nullable', r), ('list', r, None, None)])
                        else:
                            t = None
                    elif g.p(45):
                        t = None     # Void tag (LR "Union": type omitted)
                    else:
                        uw = 60 if cfg.union_struct_bias else 30
                        t = self.gen_type(ns, g.int(0, cfg.type_depth), user_weight=uw)
                    tg = {'name': name, 'type': t, 'doc': None, 'annots': []}
                    tg['annots'] = self.pick_annotations(ns, self.redactable(t))
                    d['tags'].append(tg)
                if cfg.patches and d['tags'] and g.p(15):
                    d['patch'] = g.int(1, len(d['tags']))

    # -- defaults ------------------------------------------------------------------------------
    def maybe_default(self, ns, f):
        """LR "Defaults": primitives only (and void union tags, added later once all unions
        have tags); never on a nullable type."""
        g = self.g
        t = f['type']
        if self.idx.is_nullable(t) or not g.p(30):
            return
        b = self.idx.unalias(t)
        if b[0] != 'prim' or b[1] == 'Void':
            return
        if b[1] in ('Bytes', 'Timestamp') and not self.cfg.bytes_ts_defaults:
            return
        f['default'] = ('lit', self.literal_for(b))

    def fill_defaults_from_unions(self):
        g = self.g
        for nsn, d in self.idx.types(('struct',)):
            for f in d['fields']:
                t = f['type']
                if f['default'] is not None or self.idx.is_nullable(t):
                    continue
                tt = t if not self.cfg.alias_tag_defaults else self.idx.unalias(t)
                if tt[0] != 'ref':
                    continue
                u = self.idx.get(tt[1], tt[2])
                if u['k'] != 'union' or not g.p(45):
                    continue
                voids = [tg['name'] for _, _, tg in self.idx.union_all_tags(tt[1], u)
                         if tg['type'] is None and not tg.get('catch_all')]
                if voids:
                    f['default'] = ('tag', g.choice(voids))

    def literal_for(self, t):
        """A literal satisfying primitive type `t` (boundary-biased).  With cfg.risky_literals
        a few literals per spec are only *nearly* right (stone's own acceptance is the filter)."""
        from .values import prim_value_strategy, to_spec_literal
        v = self.g.draw(prim_value_strategy(t, for_spec=True, wild=self.cfg.wild_strings))
        lit = to_spec_literal(t, v)
        if getattr(self, 'risky_left', self.cfg.risky_literals) > 0 and self.g.p(20):
            self.risky_left = getattr(self, 'risky_left', self.cfg.risky_literals) - 1
            name = t[1]
            if name == 'String':
                return lit + self.g.choice(['1', '\n', ' ', 'Z', 'x' * 30])
            if name in M.FLOATS:
                near = self.g.choice([int(lit) if abs(lit) < 1e15 else lit, lit - 1, lit + 1, -lit, lit * 2])
                if isinstance(near, float) and (near != near or near in (float('inf'), float('-inf'))):
                    return lit          # the spec grammar has no literal for inf / nan
                return near
            if name in M.INTS:
                return lit + self.g.choice([1, -1])
        return lit

    # -- inhabitedness ---------------------------------------------------------------------------
    def inhabited_set(self):
        idx = self.idx
        ok = set()

        def t_ok(t):
            k = t[0]
            if k in ('prim', 'nullable', 'map'):
                return True
            if k == 'list':
                return not t[2] or t_ok(t[1])
            if k == 'alias':
                return t_ok(idx.get(t[1], t[2])['type'])
            return (t[1], t[2]) in ok
        changed = True
        while changed:
            changed = False
            for nsn, d in idx.types():
                key = (nsn, d['name'])
                if key in ok:
                    continue
                if d['k'] == 'struct':
                    good = all(idx.is_optional(f) or t_ok(f['type'])
                               for _, _, f in idx.struct_all_fields(nsn, d))
                    if good and d.get('subtypes') and d['subtypes']['closed']:
                        good = any((nsn, kn) in ok for _, kn in d['subtypes']['items'])
                else:
                    good = any(tg['type'] is None or t_ok(tg['type'])
                               for _, _, tg in idx.union_all_tags(nsn, d))
                if good:
                    ok.add(key)
                    changed = True
        return ok, t_ok

    def repair_inhabited(self):
        """Every type must have a finite value: required reference cycles are broken by making
        one offending field nullable / adding a void tag (deterministic, after the draws)."""
        idx = self.idx
        for _ in range(200):
            ok, t_ok = self.inhabited_set()
            bad = [(n, d) for n, d in idx.types() if (n, d['name']) not in ok]
            if not bad:
                return
            n, d = sorted(bad, key=lambda x: self.rank[(x[0], x[1]['name'])])[0]
            if d['k'] == 'union':
                d['tags'].insert(0, {'name': 'void_%d' % len(d['tags']), 'type': None, 'doc': None,
                                     'annots': []})
                continue
            fixed = False
            for f in d['fields']:
                if not idx.is_optional(f) and not t_ok(f['type']):
                    f['type'] = ('nullable', f['type'])
                    f['annots'] = [a for a in f['annots'] if not self.has_redactor([a])]
                    fixed = True
                    break
            if not fixed:
                # the culprit is inherited, or a closed subtype root without inhabited child:
                # repairing the lowest-ranked bad type first guarantees progress elsewhere
                if d.get('subtypes') and d['subtypes']['closed']:
                    d['subtypes']['closed'] = False
                else:
                    raise AssertionError('cannot repair %s.%s' % (n, d['name']))
        raise AssertionError('inhabitedness repair did not converge')

    # -- routes ----------------------------------------------------------------------------------
    def make_schema(self):
        g, cfg = self.g, self.cfg
        fields = []
        imports = []
        if cfg.schema == 'client':
            fields = [
                {'name': 'style', 'type': prim('String'), 'doc': None, 'default': ('lit', 'rpc'), 'annots': []},
                {'name': 'auth', 'type': prim('String'), 'doc': None, 'default': ('lit', 'user'), 'annots': []},
                {'name': 'is_preview', 'type': prim('Boolean'), 'doc': None, 'default': ('lit', False), 'annots': []},
            ]
        elif cfg.schema == 'swift':
            fields = [
                {'name': 'auth', 'type': prim('String'), 'doc': None, 'default': ('lit', 'user'), 'annots': []},
                {'name': 'host', 'type': prim('String'), 'doc': None, 'default': ('lit', 'api'), 'annots': []},
                {'name': 'style', 'type': prim('String'), 'doc': None, 'default': ('lit', 'rpc'), 'annots': []},
            ]
        elif g.p(75):
            taken = set()
            unions = [(n['name'], d) for n in self.api['namespaces'] for d in n['defs']
                      if d['k'] == 'union' and any(
                          t['type'] is None for _, _, t in self.idx.union_all_tags(n['name'], d, False))]
            for _ in range(g.int(1, 5)):
                name = self.namer.fresh(SNAKE, taken, extra_ok=lambda s: s not in RESERVED_SNAKE)
                kinds = [(6, 'String'), (4, 'int'), (2, 'float'), (4, 'Boolean'), (1, 'Bytes')]
                if cfg.schema != 'plain':
                    # python_types cannot express union / Timestamp attribute values (C09 findings)
                    kinds.append((1, 'Timestamp'))
                    if unions:
                        kinds.append((4, 'union'))
                k = g.weighted(kinds)
                if k == 'union':
                    n, u = g.choice(unions)
                    t = ('ref', n, u['name'])
                    if n not in imports:
                        imports.append(n)
                else:
                    t = gen_prim(g, kinds=[(1, k)])
                f = {'name': name, 'type': t, 'doc': None, 'default': None, 'annots': []}
                r = g.int(0, 2)
                if r == 0 and k not in ('Void',):
                    f['type'] = ('nullable', t)
                elif r == 1:
                    if k == 'union':
                        voids = [tg['name'] for _, _, tg in self.idx.union_all_tags(t[1], self.idx.get(t[1], t[2]), False)
                                 if tg['type'] is None]
                        f['default'] = ('tag', g.choice(voids))
                    elif k not in ('Bytes', 'Timestamp'):
                        f['default'] = ('lit', self.literal_for(t))
                fields.append(f)
        else:
            return
        self.api['schema'] = {'fields': fields, 'imports': imports}

    def attr_value(self, f):
        t = f['type']
        if self.cfg.schema in ('client', 'swift') and f['name'] == 'style':
            return ('lit', self.g.choice(['rpc', 'upload', 'download']))
        if self.cfg.schema in ('client', 'swift') and f['name'] == 'auth':
            return ('lit', self.g.choice(['user', 'team', 'noauth', 'app, user']))
        if self.cfg.schema in ('client', 'swift') and f['name'] == 'host':
            return ('lit', self.g.choice(['api', 'content', 'notify']))
        b = t[1] if t[0] == 'nullable' else t
        if b[0] == 'ref':
            u = self.idx.get(b[1], b[2])
            voids = [tg['name'] for _, _, tg in self.idx.union_all_tags(b[1], u, False)
                     if tg['type'] is None]
            return ('tag', self.g.choice(voids))
        return ('lit', self.literal_for(b))

    def fill_routes(self, ns):
        g, cfg = self.g, self.cfg
        n = g.int(0, cfg.max_routes)
        taken = ns.setdefault('_taken', set())
        routes = []
        names = []
        for _ in range(n):
            if names and g.p(35):
                # another version of an existing route (LR "Versioning")
                name = g.choice(names)
                used = {r['version'] for r in routes if r['name'] == name}
                version = max(used) + g.int(1, 2)
            else:
                nsc = M.canon(ns['name'])

                all_ns = {n['name'] for n in self.api['namespaces']}

                def ok(s):
                    # a route named like a namespace shadows the import in stone's symbol
                    # table (undocumented) -> not generated
                    return (M.canon(s) != nsc and M.canon(s) + nsc not in self.canon_taken
                            and s not in all_ns and s != 'stone_cfg')
                name = self.namer.fresh(ROUTE_WORDS, taken, canon=M.canon, extra_ok=ok)
                self.canon_taken.add(M.canon(name) + nsc)
                names.append(name)
                version = 1 if g.p(80) else g.int(2, 3)
            io = []
            for pos in range(3):
                users = self.visible(ns, ('struct', 'union'))
                aliases = [(nn, d) for nn, d in self.visible(ns, ('alias',))
                           if self.idx.base(d['type'])[0] == 'ref'
                           and not self.idx.is_nullable(('alias', nn, d['name']))]
                r = g.int(0, 99)
                if cfg.route_container_bias and pos > 0 and users and g.p(30):
                    nn, d = g.choice(users)
                    u_ = ('ref', nn, d['name'])
                    t = g.choice([('list', u_, None, None), ('map', prim('String'), u_),
                                  ('nullable', ('list', ('map', prim('String'), u_), None, None)),
                                  ('map', prim('String'), ('list', u_, None, None))])
                elif r < 25 or not users:
                    t = M.VOID
                elif r < 85:
                    nn, d = g.choice(users)
                    t = ('ref', nn, d['name'])
                elif r < 92 and aliases:
                    nn, d = g.choice(aliases)
                    t = ('alias', nn, d['name'])
                elif cfg.route_io_any and pos > 0:
                    t = self.gen_type(ns, 1)
                else:
                    t = M.VOID
                io.append(t)
            r = {'k': 'route', 'name': name, 'version': version, 'arg': io[0], 'result': io[1],
                 'error': io[2], 'doc': None, 'deprecated': None, 'attrs': {}}
            sch = self.api['schema']
            if sch:
                for f in sch['fields']:
                    required = f['default'] is None and f['type'][0] != 'nullable'
                    if required or g.p(40):
                        if f['type'][0] == 'nullable' and g.p(25):
                            r['attrs'][f['name']] = ('lit', None)
                        else:
                            r['attrs'][f['name']] = self.attr_value(f)
            routes.append(r)
        # LR "Deprecation": deprecated [by route[:version]]
        for r in routes:
            if g.p(25):
                others = [o for o in routes if o is not r]
                if others and g.p(60):
                    o = g.choice(others)
                    r['deprecated'] = (o['name'], o['version'])
                else:
                    r['deprecated'] = True
        ns['defs'].extend(routes)

    def force_docs(self):
        force_docs(self.api)

    # -- docs ------------------------------------------------------------------------------------
    def doc_text(self, ns, owner=None, allow_field_ref=None):
        g, cfg = self.g, self.cfg
        lines = []
        for _ in range(1 if g.p(70) else g.int(2, 3)):
            pool = [w for w in DOC_WORDS if w != 'namespace'] if cfg.avoid_word_namespace else DOC_WORDS
            words = [g.choice(pool) for _ in range(g.int(1, 6))]
            if cfg.doc_escapes and g.p(15):
                words.append(g.choice(['C:\\users', 'a\\N{x}', '\\x4', 'tab\\there', "'''", '\"\"\"']))
            if cfg.docrefs and g.p(35):
                words.insert(g.int(0, len(words)), self.doc_ref(ns, owner, allow_field_ref))
            lines.append(' '.join(w for w in words if w))
        if len(lines) > 1 and g.p(30):
            lines.insert(1, '')   # paragraph break: two newlines become one
        text = '\n'.join(lines)
        return text

    def doc_ref(self, ns, owner, allow_field_ref):
        """LR "References": route, type, field, link, val."""
        g = self.g
        users = self.visible(ns, ('struct', 'union'))
        routes = [d for d in ns['defs'] if d['k'] == 'route']
        opts = ['link', 'val']
        if users:
            opts += ['type', 'type']
        if routes:
            opts += ['route']
        if allow_field_ref:
            opts += ['field', 'field']
        k = g.choice(opts)
        if k == 'link':
            return ':link:`Stone Repo https://github.com/dropbox/stone`'
        if k == 'val':
            return ':val:`%s`' % g.choice(['null', 'true', 'false', '42', '-1.5', '"str"'])
        if k == 'type':
            n, d = g.choice(users)
            return ':type:`%s`' % (d['name'] if n == ns['name'] else '%s.%s' % (n, d['name']))
        if k == 'route':
            r = g.choice(routes)
            return ':route:`%s`' % (r['name'] if r['version'] == 1 and g.p(50)
                                    else '%s:%d' % (r['name'], r['version']))
        return ':field:`%s`' % g.choice(allow_field_ref)

    def fill_docs(self):
        g, cfg = self.g, self.cfg
        idx = self.idx
        for ns in self.api['namespaces']:
            if cfg.ns_docs and g.p(40):
                ns['doc'] = self.doc_text(ns)
                if g.p(30):
                    ns['doc2'] = self.doc_text(ns)
            for d in ns['defs']:
                k = d['k']
                if k in ('struct', 'union'):
                    if k == 'struct':
                        members = [f['name'] for _, _, f in idx.struct_all_fields(ns['name'], d)]
                    else:
                        members = [t['name'] for _, _, t in idx.union_all_tags(ns['name'], d)]
                    if g.p(50):
                        d['doc'] = self.doc_text(ns, d, members)
                    for f in d.get('fields', d.get('tags')):
                        if g.p(35):
                            f['doc'] = self.doc_text(ns, d, members)
                elif k in ('alias', 'route'):
                    if g.p(40):
                        d['doc'] = self.doc_text(ns)
                elif k == 'annotation_type':
                    if g.p(40):
                        d['doc'] = ' '.join(g.choice(DOC_WORDS) for _ in range(3))
                    for p in d['params']:
                        if g.p(30):
                            p['doc'] = ' '.join(g.choice(DOC_WORDS) for _ in range(3))


def force_docs(api):
    """Appendix B: a struct / union / annotation_type with nothing indented under it needs a
    doc string to be syntactically valid."""
    for ns in api['namespaces']:
        for d in ns['defs']:
            if d['k'] in ('struct', 'union'):
                members = d['fields'] if d['k'] == 'struct' else d['tags']
                if len(members) - (d.get('patch') or 0) <= 0 and not d.get('subtypes') \
                        and not d.get('doc'):
                    d['doc'] = 'No members.'
            elif d['k'] == 'annotation_type' and not d['params'] and not d.get('doc'):
                d['doc'] = 'No parameters.'


@st.composite
def api_models(draw, cfg=None):
    b = Builder(draw, cfg or Cfg())
    api = b.build()
    for ns in api['namespaces']:
        ns.pop('_taken', None)
    return api


def features(api):
    """Feature classes of a model (for evidence histograms / non-triviality rules)."""
    idx = M.Index(api)
    fs = set()
    if len(api['namespaces']) > 1:
        fs.add('multi_ns')
    for n in api['namespaces']:
        if n['imports']:
            fs.add('import')
        if n['doc']:
            fs.add('ns_doc')
        for d in n['defs']:
            k = d['k']
            if k == 'struct':
                if d['parent']:
                    fs.add('inheritance')
                    if d['parent'][0] != n['name']:
                        fs.add('xns_parent')
                    own = {idx.get(*a)['args'][0] for f in d['fields'] for a in f['annots']
                           if idx.get(*a)['atype'][1] == 'Omitted'}
                    inh = {idx.get(*a)['args'][0] for an, ad in idx.ancestors(n['name'], d)
                           for f in ad['fields'] for a in f['annots']
                           if idx.get(*a)['atype'][1] == 'Omitted'}
                    if len(inh - own) >= 2:
                        fs.add('inherits>=2_omitted_callers')
                if d['subtypes']:
                    fs.add('enumerated_subtypes')
                if d['patch']:
                    fs.add('patch')
                if d['examples']:
                    fs.add('example')
                for f in d['fields']:
                    if f['default'] is not None:
                        fs.add('default')
                        if f['default'][0] == 'tag':
                            fs.add('tag_default')
                    if f['annots']:
                        fs.add('annotation')
                    fs |= type_features(idx, n['name'], f['type'])
            elif k == 'union':
                if d['parent']:
                    fs.add('union_inheritance')
                if d['patch']:
                    fs.add('patch')
                if d['examples']:
                    fs.add('example')
                for t in d['tags']:
                    if t['type'] is not None:
                        fs |= type_features(idx, n['name'], t['type'])
                    if t['annots']:
                        fs.add('annotation')
            elif k == 'alias':
                fs.add('alias')
                if d['type'][0] == 'alias':
                    fs.add('alias_chain')
                if d['annots']:
                    fs.add('annotation')
            elif k == 'route':
                fs.add('route')
                if d['version'] > 1:
                    fs.add('route_version')
                if d['deprecated']:
                    fs.add('deprecated')
                if d['attrs']:
                    fs.add('attrs')
            elif k == 'annotation_type':
                fs.add('custom_annotation')
            if d.get('doc') and ':' in d['doc'] and '`' in d['doc']:
                fs.add('doc_ref')
    return fs


def type_features(idx, ns, t):
    fs = set()
    for s in M.walk_types(t):
        if s[0] == 'nullable':
            fs.add('nullable')
        elif s[0] == 'list':
            fs.add('list')
        elif s[0] == 'map':
            fs.add('map')
        elif s[0] == 'alias':
            fs.add('alias_use')
        elif s[0] == 'ref' and s[1] != ns:
            fs.add('xns_ref')
    if M.type_depth(t) >= 2:
        fs.add('nest2')
    return fs


@st.composite
def frontend_cases(draw, base=None):
    """Model + layout for the frontend properties: enables the sub-domains that only the
    frontend checks exercise (nullable aliases, wild strings) at a low rate."""
    kw = dict(base or {})
    r = draw(st.integers(0, 99))
    kw.setdefault('nullable_aliases', r >= 85)
    kw.setdefault('wild_strings', 70 <= r < 78)
    kw.setdefault('alias_nesting_bias', r % 3 == 0)     # aliases of containers / nullables of other aliases and user types
    api = draw(api_models(Cfg(**kw)))
    from . import render
    lay = draw(render.layouts(api)) if draw(st.integers(0, 3)) else None
    return {'api': api, 'layout': lay}
