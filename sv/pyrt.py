"""Harness around the generated Python runtime shared by C04-C08, C10, C13."""
import json
import re

from hypothesis import strategies as st

from . import core, gen, render, pygen, values, ref_json, model as M

RT_CFG = dict(omitted=False, schema='plain', union_struct_bias=True, route_io_any=True, max_ns=3, max_types=6, max_routes=3, examples=False)


def test_types(api):
    """(key, type expression) of every struct, union, alias and route io type."""
    idx = M.Index(api)
    out = []
    for n in api['namespaces']:
        for d in n['defs']:
            if d['k'] in ('struct', 'union'):
                out.append((('named', n['name'], d['name']), ('ref', n['name'], d['name'])))
            elif d['k'] == 'alias':
                out.append((('named', n['name'], d['name']), ('alias', n['name'], d['name'])))
            elif d['k'] == 'route':
                for pos in ('arg', 'result', 'error'):
                    if d[pos] != M.VOID:
                        out.append((('route', n['name'], d['name'], d['version'], pos), d[pos]))
    return out


def route_attr_name(name, version):
    s = name.replace('/', '_').replace('-', '_')
    return s if version == 1 else '%s_v%d' % (s, version)


def validator_for(pkg, key):
    if key[0] == 'named':
        return pkg.validator(key[1], key[2])
    r = getattr(pkg.mods[key[1]], route_attr_name(key[2], key[3]))
    return getattr(r, key[4] + '_type')


@st.composite
def typed_values(draw, cfg_kw=None, per_spec=(6, 14), wild=False, omit_callers=frozenset(), subclass=False, bias_fn=None):
    kw = dict(RT_CFG)
    kw.update(cfg_kw or {})
    api = draw(gen.api_models(gen.Cfg(**kw)))
    idx = M.Index(api)
    costs = values.Costs(idx)
    types = test_types(api)
    bias = bias_fn(idx) if bias_fn else None
    items = []
    if types:
        for _ in range(draw(st.integers(*per_spec))):
            key, t = draw(st.sampled_from(types))
            if costs.texpr(t) >= values.Costs.INF:
                continue
            v = draw(values.value_for(idx, costs, t, fuel=draw(st.integers(0, 3)), wild=wild,
                                          omit_callers=omit_callers, subclass=subclass, bias=bias))
            if not values.is_complete(v):
                continue
            items.append((key, t, v))
    return {'api': api, 'items': items}


def build(api, rec, **kw):
    """Compile + import; build failures belong to C09 and are only counted here."""
    specs, _ = render.render(api)
    try:
        return pygen.PyPkg(specs, **kw), specs
    except pygen.BuildFailure as e:
        rec.note('build_failed(judged by C09/C03):%s:%s' % (e.stage, type(e.exc).__name__))
        return None, specs


_IDX = re.compile(r'\[[^\]]*\]')
_NAMES = re.compile(r'\.[A-Za-z_0-9]+')


def path_kind(desc):
    """Walker difference description -> coarse kind (names and indices removed)."""
    head = desc.split(':', 1)
    p = _IDX.sub('[]', head[0])
    p = _NAMES.sub('.f', p)
    p = re.sub(r'<[^>]*>', '<tag>', p)
    rest = re.sub(r"'[^']*'|\"[^\"]*\"|-?\d+(\.\d+)?(e[+-]?\d+)?", '_', head[1] if len(head) > 1 else '')
    return (p[-40:] + ':' + rest[:40]).strip()
