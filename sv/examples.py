"""Valid-by-construction examples (LR "Examples", test_examples*)."""
from . import model as M

LABELS = ['default', 'alt', 'sample2']
EX_WORDS = ['A typical value.', 'An "edge" case', None, None, None, 'namespace-level example']


def add_examples(b):
    """Examples only ever reference examples that already exist, so reference chains are
    finite (a cyclic chain is reported by C03 as a RecursionError escape, not generated here)."""
    g, idx = b.g, b.idx
    types = sorted(idx.types(), key=lambda nd: b.rank[(nd[0], nd[1]['name'])])
    for label in LABELS[:g.int(0, 3)]:
        remaining = [(n, d) for n, d in types if g.p(65)]
        progress = True
        while progress and remaining:
            progress = False
            for n, d in list(remaining):
                if not _feasible_type(idx, n, d, label, None):
                    continue
                ex = _build(b, n, d, label, None)
                remaining.remove((n, d))
                if ex is not None:
                    d['examples'].append(ex)
                    progress = True
    _drop_dangling(idx)


def _refs_in(idx, t, v):
    """(target type key, label) pairs referenced by example value v of type t."""
    while t[0] in ('alias', 'nullable'):
        t = idx.get(t[1], t[2])['type'] if t[0] == 'alias' else t[1]
    if v[0] == 'ref':
        return [((t[1], t[2]), v[1])] if t[0] == 'ref' else [(None, v[1])]
    if v[0] == 'list' and t[0] == 'list':
        return [r for x in v[1] for r in _refs_in(idx, t[1], x)]
    if v[0] == 'map' and t[0] == 'map':
        return [r for _, x in v[1] for r in _refs_in(idx, t[2], x)]
    return []


def _drop_dangling(idx):
    changed = True
    while changed:
        changed = False
        avail = {}
        for n, d in idx.types():
            labels = {e['label'] for e in d['examples']}
            if d['k'] == 'union':
                labels |= set(_void_tags(idx, n, d))
            avail[(n, d['name'])] = labels
        for n, d in idx.types():
            keep = []
            for ex in d['examples']:
                ok = True
                if d['k'] == 'struct' and d.get('subtypes'):
                    tag, v = ex['fields'][0]
                    kid = dict(d['subtypes']['items'])[tag]
                    ok = v[1] in avail[(n, kid)]
                else:
                    members = {f['name']: f for _, _, f in (
                        idx.struct_all_fields(n, d) if d['k'] == 'struct' else idx.union_all_tags(n, d))}
                    for name, v in ex['fields']:
                        ft = members[name]['type']
                        if ft is None:
                            continue
                        for key, lab in _refs_in(idx, ft, v):
                            if key is None or lab not in avail[key]:
                                ok = False
                if ok:
                    keep.append(ex)
                else:
                    changed = True
            d['examples'] = keep


def _has_ref_under_container(idx, t, inside=False):
    k = t[0]
    if k == 'alias':
        return _has_ref_under_container(idx, idx.get(t[1], t[2])['type'], inside)
    if k == 'nullable':
        return _has_ref_under_container(idx, t[1], inside)
    if k == 'list':
        return _has_ref_under_container(idx, t[1], True)
    if k == 'map':
        return _has_ref_under_container(idx, t[2], True)
    if k == 'ref':
        return inside
    return False


def _alias_to_container_with_ref(idx, t):
    """DESIGN Appendix C #16: an alias whose target is a container of user types makes the
    example pass crash; the generator stays clear of it (the defect is reported by C03)."""
    return False      # repaired in the repository (fix 7299f70): these shapes are generated again
    k = t[0]
    if k == 'alias':
        # also an alias of a nullable user type ('Nullable' object has no '_has_example')
        tgt = idx.unalias(t)
        if tgt[0] == 'nullable' and idx.base(tgt)[0] == 'ref':
            return True
        return _has_ref_under_container(idx, t)
    if k in ('nullable', 'list'):
        return _alias_to_container_with_ref(idx, t[1])
    if k == 'map':
        return _alias_to_container_with_ref(idx, t[2])
    return False


def _void_tags(idx, ns, u):
    return [t['name'] for _, _, t in idx.union_all_tags(ns, u, with_other=False) if t['type'] is None]


def _feasible(idx, t, label, wants, in_union=False, under_map=False):
    k = t[0]
    if k == 'prim':
        return t[1] != 'Void'
    if k == 'nullable':
        return True
    if k == 'alias':
        if _alias_to_container_with_ref(idx, t):
            return False
        return _feasible(idx, idx.get(t[1], t[2])['type'], label, wants, in_union, under_map)
    if k == 'list':
        if idx.base(t[1])[0] == 'map':
            return not t[2]
        return not t[2] or _feasible(idx, t[1], label, wants, in_union, under_map)
    if k == 'map':
        return True
    d = idx.get(t[1], t[2])
    if d['examples']:
        return True
    return d['k'] == 'union' and bool(_void_tags(idx, t[1], d))


def _feasible_type(idx, ns, d, label, wants):
    if d['k'] == 'struct':
        if d.get('subtypes'):
            return any(idx.get(ns, kid)['examples'] for _, kid in d['subtypes']['items'])
        for _, _, f in idx.struct_all_fields(ns, d):
            if _alias_to_container_with_ref(idx, f['type']):
                return False
            if not idx.is_optional(f) and not _feasible(idx, f['type'], label, wants):
                return False
        return True
    tags = idx.union_all_tags(ns, d, with_other=False)
    return any(t['type'] is None or (not _alias_to_container_with_ref(idx, t['type']) and
                                     _feasible(idx, t['type'], label, wants, in_union=True))
               for _, _, t in tags)


def _value(b, t, label, wants, in_union=False, under_map=False, depth=0):
    """Example value for a type expression or None when impossible."""
    g, idx = b.g, b.idx
    k = t[0]
    if k == 'prim':
        if t[1] == 'Void':
            return None
        return ('lit', b.literal_for(t))
    if k == 'nullable':
        if g.p(35) or not _feasible(idx, t[1], label, wants, in_union, under_map):
            return ('lit', None)
        return _value(b, t[1], label, wants, in_union, under_map, depth)
    if k == 'alias':
        return _value(b, idx.get(t[1], t[2])['type'], label, wants, in_union, under_map, depth)
    if k == 'list':
        lo = t[2] or 0
        hi = t[3] if t[3] is not None else lo + 2
        ok = _feasible(idx, t[1], label, wants, in_union, under_map)
        if idx.base(t[1])[0] == 'map':
            ok = False      # the example grammar has no map inside a list
            if lo:
                return None
        n = g.int(lo, max(lo, min(hi, lo + 2))) if ok else 0
        items = []
        for _ in range(n):
            v = _value(b, t[1], label, wants, in_union, under_map, depth + 1)
            if v is None:
                return None
            if v == ('lit', None) and not idx.is_nullable(t[1]):
                return None
            items.append(v)
        return ('list', items)
    if k == 'map':
        ok = _feasible(idx, t[2], label, wants, in_union, True)
        n = g.int(0, 2) if ok else 0
        pairs = []
        seen = set()
        for _ in range(n):
            key = b.literal_for(idx.unalias(t[1]))
            if key in seen:
                continue
            seen.add(key)
            v = _value(b, t[2], label, wants, in_union, True, depth + 1)
            if v is None:
                return None
            pairs.append((key, v))
        return ('map', pairs)
    d = idx.get(t[1], t[2])
    opts = [e['label'] for e in d['examples']]
    if d['k'] == 'union':
        opts += _void_tags(idx, t[1], d)
    if not opts:
        return None
    return ('ref', g.choice(opts))


def _build(b, ns, d, label, wants):
    g, idx = b.g, b.idx
    doc = g.choice([w for w in EX_WORDS if not (w and b.cfg.avoid_word_namespace and 'namespace' in w)]) if b.cfg.docs else None
    if d['k'] == 'struct':
        if d.get('subtypes'):
            cands = [(tag, kid) for tag, kid in d['subtypes']['items'] if idx.get(ns, kid)['examples']]
            tag, kid = g.choice(cands)
            kd = idx.get(ns, kid)
            labels = [e['label'] for e in kd['examples']]
            return {'label': label, 'doc': doc, 'fields': [(tag, ('ref', g.choice(labels)))]}
        fields = []
        for _, _, f in idx.struct_all_fields(ns, d):
            opt = idx.is_optional(f)
            if opt and g.p(50):
                continue
            v = _value(b, f['type'], label, wants)
            if v is None:
                if opt:
                    continue
                return None
            fields.append((f['name'], v))
        return {'label': label, 'doc': doc, 'fields': fields}
    tags = [t for _, _, t in idx.union_all_tags(ns, d, with_other=False)
            if t['type'] is None or (not _alias_to_container_with_ref(idx, t['type']) and
                                     _feasible(idx, t['type'], label, wants, in_union=True))]
    if not tags:
        return None
    t = g.choice(tags)
    if t['type'] is None:
        return {'label': label, 'doc': doc, 'fields': [(t['name'], ('lit', None))]}
    v = _value(b, t['type'], label, wants, in_union=True)
    if v is None:
        return None
    return {'label': label, 'doc': doc, 'fields': [(t['name'], v)]}
