"""Structural mutations of JSON documents (C06) and arbitrary small documents."""
import copy

from hypothesis import strategies as st

SCALARS = [None, True, False, 0, 1, -1, 1.5, 2**31, 2**63, -2**63 - 1, 1e308, '', 's', 'other', '0', 'é',
           '!!!!', 'aGVsbG8=', '2015-05-12T15:50:38Z']
REPLACEMENTS = SCALARS + [[], {}, [1], {'.tag': 'other'}, {'.tag': 'zz_unknown'}, {'k': 'v'}, [None], [[]]]


def paths(j, prefix=()):
    """All positions in a JSON value."""
    out = [prefix]
    if isinstance(j, dict):
        for k, v in j.items():
            out += paths(v, prefix + (k,))
    elif isinstance(j, list):
        for i, v in enumerate(j):
            out += paths(v, prefix + (i,))
    return out


def get(j, path):
    for p in path:
        j = j[p]
    return j


def put(j, path, v):
    if not path:
        return v
    j = copy.deepcopy(j)
    cur = j
    for p in path[:-1]:
        cur = cur[p]
    cur[path[-1]] = v
    return j


OPS = ['replace', 'drop_key', 'add_key', 'rename_key', 'bump_number', 'retag', 'wrap', 'unwrap',
       'grow_list', 'shrink_list', 'explicit_null', 'lengthen_string', 'dup_tag_as_key']


def mutate(j, op, pos, pay):
    """Total function: returns (new document, operator actually applied or None)."""
    ps = paths(j)
    path = ps[pos % len(ps)]
    cur = get(j, path)
    if op == 'replace':
        return put(j, path, copy.deepcopy(REPLACEMENTS[pay % len(REPLACEMENTS)])), op
    dicts = [p for p in ps if isinstance(get(j, p), dict)]
    lists = [p for p in ps if isinstance(get(j, p), list)]
    nums = [p for p in ps if isinstance(get(j, p), (int, float)) and not isinstance(get(j, p), bool)]
    strs = [p for p in ps if isinstance(get(j, p), str) and (not p or p[-1] != '.tag')]
    if op in ('drop_key', 'rename_key', 'add_key', 'explicit_null', 'retag', 'dup_tag_as_key') and dicts:
        dp = dicts[pos % len(dicts)]
        d = copy.deepcopy(get(j, dp))
        keys = list(d)
        if op == 'add_key':
            d[['zz_extra', 'other', '.tagx', 'zz'][pay % 4]] = copy.deepcopy(SCALARS[pay % len(SCALARS)])
        elif op == 'explicit_null':
            d[['zz_extra', 'name', 'value'][pay % 3]] = None
        elif op == 'retag':
            d['.tag'] = ['other', 'zz_unknown', 5, None, keys[pay % len(keys)] if keys else 'x', ''][pay % 6]
        elif op == 'dup_tag_as_key':
            if isinstance(d.get('.tag'), str):
                d[d['.tag']] = copy.deepcopy(SCALARS[pay % len(SCALARS)])
            else:
                return j, None
        elif not keys:
            return j, None
        elif op == 'drop_key':
            del d[keys[pay % len(keys)]]
        else:
            k = keys[pay % len(keys)]
            d[k + '_x'] = d.pop(k)
        return put(j, dp, d), op
    if op == 'bump_number' and nums:
        np_ = nums[pos % len(nums)]
        v = get(j, np_)
        delta = [1, -1, 2**31, -2**31, 2**32, 2**63, -2**63, 2**64, 0.5, 1e39, -1e39, 1e300][pay % 12]
        return put(j, np_, v + delta if not isinstance(delta, float) or isinstance(v, float) or delta in (0.5,) else float(v) + delta), op
    if op == 'lengthen_string' and strs:
        sp = strs[pos % len(strs)]
        v = get(j, sp)
        return put(j, sp, [v + 'x' * 50, v[:-1], '', v + '\n', v * 3, 'ß' + v][pay % 6]), op
    if op == 'wrap':
        return put(j, path, [{'x': copy.deepcopy(cur)}, [copy.deepcopy(cur)]][pay % 2]), op
    if op == 'unwrap' and isinstance(cur, (dict, list)) and cur:
        inner = list(cur.values())[pay % len(cur)] if isinstance(cur, dict) else cur[pay % len(cur)]
        return put(j, path, copy.deepcopy(inner)), op
    if op == 'grow_list' and lists:
        lp = lists[pos % len(lists)]
        lst = copy.deepcopy(get(j, lp))
        extra = copy.deepcopy(lst[0]) if lst and pay % 2 else copy.deepcopy(SCALARS[pay % len(SCALARS)])
        return put(j, lp, lst + [extra] * (1 + pay % 4)), op
    if op == 'shrink_list' and lists:
        lp = lists[pos % len(lists)]
        lst = copy.deepcopy(get(j, lp))
        if not lst:
            return j, None
        return put(j, lp, lst[:-1] if pay % 2 else []), op
    return j, None


def mutation():
    return st.tuples(st.sampled_from(OPS), st.integers(0, 9999), st.integers(0, 9999))


def arbitrary_json():
    leaves = st.one_of(st.sampled_from(SCALARS), st.integers(-2**65, 2**65),
                       st.floats(allow_nan=False, allow_infinity=False), st.text(max_size=6))
    keys = st.one_of(st.sampled_from(['.tag', 'other', 'name', 'value', 'x']), st.text(max_size=4))
    return st.recursive(leaves, lambda ch: st.one_of(st.lists(ch, max_size=3),
                                                     st.dictionaries(keys, ch, max_size=3)), max_leaves=8)


def single_key_edits(j):
    """Every document that differs from j by one key of one object: the key dropped, renamed, or
    set to null (deterministic order)."""
    out = []
    for dp in paths(j):
        d = get(j, dp)
        if not isinstance(d, dict):
            continue
        for k in d:
            for op in ('drop_key', 'rename_key', 'null_key'):
                nd = copy.deepcopy(d)
                if op == 'drop_key':
                    del nd[k]
                elif op == 'rename_key':
                    nd[k + '_x'] = nd.pop(k)
                else:
                    if nd[k] is None:
                        continue
                    nd[k] = None
                out.append((op + ':sweep' + (':object' if isinstance(d[k], dict) else ''), put(j, dp, nd)))
    return out
