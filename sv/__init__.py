"""Shared machinery for the stone property checks (see /verif/DESIGN.md)."""
import os
import sys

VERIF_DIR = os.path.dirname(os.path.dirname(os.path.abspath(__file__)))
REPO = os.environ.get('SV_REPO', '/repo')


def setup_paths():
    """Put the tree under test first on sys.path (so a scratch copy given by
    SV_REPO wins over the editable install) and /verif/.deps last."""
    if REPO not in sys.path[:1]:
        sys.path.insert(0, REPO)
    deps = os.path.join(VERIF_DIR, '.deps')
    if os.path.isdir(deps) and deps not in sys.path:
        sys.path.append(deps)
    if VERIF_DIR not in sys.path:
        sys.path.insert(1, VERIF_DIR)


setup_paths()
