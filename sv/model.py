"""Plain-data model of a Stone API and helpers over it.

Type expressions are tuples:
  ('prim', name, ((param, value), ...))      name in PRIMS; params sorted by name
  ('list', T, min_items, max_items)
  ('map', K, V)
  ('nullable', T)
  ('ref', ns, name)                           struct or union
  ('alias', ns, name)

The model is a dict (see gen.py for the producer):
  api  = {'namespaces': [ns...], 'schema': None | {'fields': [field...]}}
  ns   = {'name', 'doc': None|str, 'doc2': None|str, 'imports': [name...], 'defs': [def...]}
  def  = alias | struct | union | route | annotation | annotation_type   (key 'k')
"""

INT_RANGES = {
    'Int32': (-2**31, 2**31 - 1),
    'UInt32': (0, 2**32 - 1),
    'Int64': (-2**63, 2**63 - 1),
    'UInt64': (0, 2**64 - 1),
}
FLOAT32_MAX = 3.40282 * 10**38
INTS = tuple(INT_RANGES)
FLOATS = ('Float32', 'Float64')
PRIMS = INTS + FLOATS + ('Boolean', 'String', 'Bytes', 'Timestamp', 'Void')

STONE_KEYWORDS = {'alias', 'annotation', 'annotation_type', 'attrs', 'by', 'deprecated', 'doc',
                  'example', 'error', 'extends', 'import', 'namespace', 'patch', 'route', 'struct',
                  'union', 'union_closed', 'true', 'false', 'null'}


def prim(name, **params):
    return ('prim', name, tuple(sorted((k, v) for k, v in params.items() if v is not None)))


def pparams(t):
    return dict(t[2])


VOID = prim('Void')


def freeze(x):
    if isinstance(x, (list, tuple)):
        return tuple(freeze(i) for i in x)
    if isinstance(x, dict):
        return tuple(sorted((k, freeze(v)) for k, v in x.items()))
    return x


def doc_unwrap(raw):
    """lang_ref / data_types docstring: a lone newline becomes a space, N newlines N-1."""
    if raw is None:
        return None
    out = ''
    run = 0
    for c in raw.strip():
        if c == '\n':
            run += 1
            if run > 1:
                out += c
        else:
            if run == 1:
                out += ' '
            run = 0
            out += c
    return out


def canon(name):
    return name.replace('_', '').replace('/', '').lower()


class Index:
    """Lookups over a model."""

    def __init__(self, api):
        self.api = api
        self.ns = {n['name']: n for n in api['namespaces']}
        self.defs = {}
        for n in api['namespaces']:
            for d in n['defs']:
                if d['k'] in ('alias', 'struct', 'union', 'annotation', 'annotation_type'):
                    self.defs[(n['name'], d['name'])] = d

    def get(self, ns, name):
        return self.defs[(ns, name)]

    def types(self, kinds=('struct', 'union')):
        for n in self.api['namespaces']:
            for d in n['defs']:
                if d['k'] in kinds:
                    yield n['name'], d

    def routes(self):
        for n in self.api['namespaces']:
            for d in n['defs']:
                if d['k'] == 'route':
                    yield n['name'], d

    # -- type expression helpers -------------------------------------------
    def unalias(self, t):
        while t[0] == 'alias':
            t = self.get(t[1], t[2])['type']
        return t

    def is_nullable(self, t):
        return self.unalias(t)[0] == 'nullable'

    def base(self, t):
        """Strip aliases and nullables."""
        while t[0] in ('alias', 'nullable'):
            t = self.get(t[1], t[2])['type'] if t[0] == 'alias' else t[1]
        return t

    def deep_unalias(self, t):
        """Type expression with every alias replaced by its target (recursively)."""
        k = t[0]
        if k == 'alias':
            return self.deep_unalias(self.get(t[1], t[2])['type'])
        if k == 'nullable':
            inner = self.deep_unalias(t[1])
            return inner if inner[0] == 'nullable' else ('nullable', inner)
        if k == 'list':
            return ('list', self.deep_unalias(t[1]), t[2], t[3])
        if k == 'map':
            return ('map', self.deep_unalias(t[1]), self.deep_unalias(t[2]))
        return t

    # -- structs ---------------------------------------------------------------
    def ancestors(self, ns, d):
        """Nearest first."""
        out = []
        while d.get('parent'):
            pns, pname = d['parent']
            d = self.get(pns, pname)
            out.append((pns, d))
            ns = pns
        return out

    def chain(self, ns, d):
        """Root first, ending with the type itself."""
        return list(reversed(self.ancestors(ns, d))) + [(ns, d)]

    def is_optional(self, f):
        return f.get('default') is not None or self.is_nullable(f['type'])

    def struct_all_fields(self, ns, d):
        """Documented order: required fields (ancestors first) then optional (ancestors first)."""
        ch = self.chain(ns, d)
        req = [(n, s, f) for n, s in ch for f in s['fields'] if not self.is_optional(f)]
        opt = [(n, s, f) for n, s in ch for f in s['fields'] if self.is_optional(f)]
        return req + opt

    def has_catch_all_own(self, ns, d):
        """An open union with no parent or a closed parent owns the implicit `other` tag."""
        if d['closed']:
            return False
        if d.get('parent'):
            p = self.get(*d['parent'])
            return p['closed']
        return True

    def union_all_tags(self, ns, d, with_other=True):
        """(ns, union def, tag) triples; parent's tags first; `other` where it is declared."""
        out = []
        for n, u in self.chain(ns, d):
            for t in u['tags']:
                out.append((n, u, t))
            if with_other and self.has_catch_all_own(n, u):
                out.append((n, u, {'name': 'other', 'type': None, 'doc': None, 'annots': [],
                                   'catch_all': True}))
        return out

    def is_open(self, ns, d):
        return any(t.get('catch_all') for _, _, t in self.union_all_tags(ns, d))

    def children(self, ns, name):
        return [(n, d) for n, d in self.types(('struct', 'union'))
                if d.get('parent') == (ns, name)]

    def subtree_tag(self, ns, d):
        """For a struct listed under an enumerated-subtype parent: its tag."""
        if d['k'] != 'struct' or not d.get('parent'):
            return None
        p = self.get(*d['parent'])
        if p.get('subtypes'):
            for tag, name in p['subtypes']['items']:
                if name == d['name'] and d['parent'][0] == ns:
                    return tag
        return None


def walk_types(t):
    """All sub-expressions of a type expression, outermost first."""
    yield t
    if t[0] in ('nullable', 'list'):
        yield from walk_types(t[1])
    elif t[0] == 'map':
        yield from walk_types(t[1])
        yield from walk_types(t[2])


def type_depth(t):
    if t[0] in ('nullable', 'list'):
        return 1 + type_depth(t[1])
    if t[0] == 'map':
        return 1 + type_depth(t[2])
    return 0


def lexer_rewrites(text):
    """Does stone's lexer change this string literal (known finding, judged by C02: splitlines()+join
    normalises line breaks and drops a trailing one; a run of 4*indent spaces is removed)?"""
    return isinstance(text, str) and ('\n'.join(text.splitlines()) != text or '    ' in text)
