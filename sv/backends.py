"""Running the built-in backends with the option shapes each one parses (DESIGN Appendix D)."""
import hashlib
import importlib
import json
import os
import shutil
import tempfile
import traceback

CLIENT_ARGS_SWIFT = json.dumps({
    'upload': [['upload', [['input', 'input', 'Data', 'The file to upload.']]],
               ['upload_stream', [['input', 'input', 'InputStream', 'The stream to upload.']]]],
    'download': [['download_file', [['overwrite', 'overwrite', 'Bool', 'Overwrite.'],
                                    ['destination', 'destination', '@escaping (URL) -> URL', 'Destination.']]],
                 ['download_memory', []]],
})
STYLE_TO_REQUEST_SWIFT = json.dumps({
    'rpc': 'RpcRequest', 'upload': 'UploadRequest', 'download_file': 'DownloadRequestFile',
    'download_memory': 'DownloadRequestMemory', 'upload_stream': 'UploadRequest',
})
CLIENT_ARGS_OBJC = json.dumps({
    'upload': [['upload', ['Url', [['inputUrl', 'inputUrl', 'NSString *', 'The file to upload.']]]],
               ['upload', ['Data', [['inputData', 'inputData', 'NSData *', 'The data to upload.']]]]],
    'download': [['download_url', ['Url', [['overwrite', 'overwrite', 'BOOL', 'Overwrite.'],
                                          ['destination', 'destination', 'NSURL *', 'Destination.']]]],
                 ['download_data', ['Data', []]]],
})
STYLE_TO_REQUEST_OBJC = json.dumps({
    'rpc': 'DBRpcTask', 'upload': 'DBUploadTask', 'download_url': 'DBDownloadUrlTask',
    'download_data': 'DBDownloadDataTask',
})

# name -> (backend module, args, template files to place in the output folder, needs 'swift' schema)
CONFIGS = {
    'python_types': ('python_types', ['-p', 'pkg'], {}, False),
    'python_type_stubs': ('python_type_stubs', ['-p', 'pkg'], {}, False),
    'python_client': ('python_client', ['-m', 'client', '-c', 'Base', '-t', 'pkg'], {}, False),
    'js_client': ('js_client', ['routes.js'], {}, False),
    'js_client_opts': ('js_client', ['routes.js', '-c', 'Api', '--wrap-response-in', 'Resp', '--wrap-error-in', 'Err',
                                     '--request-options', '-a', 'style', '-a', 'auth'], {}, False),
    'js_types': ('js_types', ['types.js'], {}, False),
    'tsd_types': ('tsd_types', ['types_tpl.d.ts', 'types.d.ts'], {'types_tpl.d.ts': '// header\n/*TYPES*/\n// footer\n'}, False),
    'tsd_types_per_ns': ('tsd_types', ['types_tpl.d.ts', '--export-namespaces'],
                         {'types_tpl.d.ts': '// header\n/*TYPES*/\n'}, False),
    'tsd_client': ('tsd_client', ['client_tpl.d.ts', 'client.d.ts'],
                   {'client_tpl.d.ts': 'declare class Api {\n/*ROUTES*/\n}\n'}, False),
    'tsd_client_imports': ('tsd_client', ['client_tpl.d.ts', 'client.d.ts', '--import-namespaces', '--types-file', './types',
                                          '--wrap-response-in', 'Resp', '--wrap-error-in', 'Err', '-a', 'style'],
                           {'client_tpl.d.ts': '/*IMPORT*/\ndeclare class Api {\n/*ROUTES*/\n}\n'}, False),
    'swift_types': ('swift_types', [], {}, True),
    'swift_types_objc': ('swift_types', ['--objc'], {}, True),
    'swift_client': ('swift_client', ['-m', 'Routes', '-c', 'Client', '-t', 'Transport', '-y', CLIENT_ARGS_SWIFT,
                                      '-z', STYLE_TO_REQUEST_SWIFT], {}, True),
    'swift_client_objc': ('swift_client', ['-m', 'Routes', '-c', 'Client', '-t', 'Transport', '-y', CLIENT_ARGS_SWIFT,
                                           '-z', STYLE_TO_REQUEST_SWIFT, '--objc'], {}, True),
    'obj_c_types': ('obj_c_types', [], {}, True),
    'obj_c_client': ('obj_c_client', ['-m', 'Routes', '-c', 'Client', '-t', 'Transport', '-y', CLIENT_ARGS_OBJC,
                                      '-z', STYLE_TO_REQUEST_OBJC, '-w', 'user'], {}, True),
}
# further JavaScript / TypeScript option sets (C16); attribute names are the ones the generic
# route schemas of sv.gen draw most often (SNAKE pool) plus those of the 'client' schema
_ATTR_COMMENTS = ['-a', 'style', '-a', 'is_preview', '-a', 'name', '-a', 'path', '-a', 'size', '-a', 'count',
                  '-a', 'mode', '-a', 'value', '-a', 'flag', '-a', 'data', '-a', 'info', '-a', 'kind']
CONFIGS.update({
    'js_client_reqopts': ('js_client', ['routes.js', '--request-options'], {}, False),
    'js_client_attrs': ('js_client', ['routes.js', '-c', 'Api'] + _ATTR_COMMENTS, {}, False),
    'tsd_types_export': ('tsd_types', ['types_tpl.d.ts', 'types.d.ts', '--export-namespaces'],
                         {'types_tpl.d.ts': '// header\n/*TYPES*/\n// footer\n'}, False),
    'tsd_types_per_ns_prefix': ('tsd_types', ['types_tpl.d.ts', '-p', 'pkg/'],
                                {'types_tpl.d.ts': '/*TYPES*/\n'}, False),
    'tsd_client_attrs': ('tsd_client', ['client_tpl.d.ts', 'client.d.ts', '--wrap-response-in', 'Resp'] + _ATTR_COMMENTS,
                         {'client_tpl.d.ts': 'declare class Api {\n/*ROUTES*/\n}\n'}, False),
})
ALL = sorted(CONFIGS)
GENERIC = [b for b in ALL if not CONFIGS[b][3]]      # run on any schema
SWIFT_OBJC = [b for b in ALL if CONFIGS[b][3]]


class BackendCrash(Exception):
    def __init__(self, name, tb):
        super().__init__(name)
        self.name = name
        self.tb = tb


def run_backend(name, api, outdir, manifest=False, precreate=True):
    """Run one configured backend on a stone Api into outdir; returns the Compiler.
    precreate=False (only for configurations without template files) leaves a missing outdir missing."""
    from stone.compiler import Compiler, BackendException
    modname, args, templates, _ = CONFIGS[name]
    if precreate or templates:
        os.makedirs(outdir, exist_ok=True)
    for fn, text in templates.items():
        with open(os.path.join(outdir, fn), 'w') as f:
            f.write(text)
    mod = importlib.import_module('stone.backends.%s' % modname)
    c = Compiler(api, mod, list(args), outdir, output_manifest=manifest)
    try:
        c.build()
    except BackendException as e:
        raise BackendCrash(name, e.traceback)
    except SystemExit as e:
        raise BackendCrash(name, 'SystemExit(%r)\n%s' % (e.code, traceback.format_exc()))
    return c


def read_tree(root, skip=()):
    out = {}
    for base, _, names in os.walk(root):
        for n in names:
            p = os.path.join(base, n)
            rel = os.path.relpath(p, root)
            if rel in skip:
                continue
            with open(p, 'rb') as f:
                out[rel] = f.read()
    return out


def generate(name, specs, **kw):
    """specs -> {relative path: bytes} for one backend (fresh Api, scratch dir removed)."""
    from stone.frontend.frontend import specs_to_ir
    api = specs_to_ir(list(specs), **kw)
    d = tempfile.mkdtemp(prefix='sv_be_')
    try:
        run_backend(name, api, d)
        return read_tree(d, skip=set(CONFIGS[name][2]))
    finally:
        shutil.rmtree(d, ignore_errors=True)


def digest(files):
    h = hashlib.blake2b(digest_size=8)
    for k in sorted(files):
        h.update(k.encode())
        h.update(b'\0')
        h.update(files[k])
        h.update(b'\0')
    return h.hexdigest()
