"""Coverage-guided fuzz target for the Stone frontend (C03), run under the tooling interpreter
(python3-vt: atheris + libFuzzer) by sv/props/c03.py.  Not imported by the checks themselves.

usage: python3-vt fuzz_frontend.py <out_dir> <repo> [libFuzzer flags ...] <corpus_dir>

The target decodes the fuzzer's bytes into one or two spec texts (byte 0 picks the decoding:
raw UTF-8 text, or a token stream over the language's keywords / punctuation / common names /
literals / indentation, so that coverage feedback reaches the IR generator instead of dying in
the lexer) and compiles them.  The semantic oracle is inside the target: any exception other than
InvalidSpec, an InvalidSpec with an empty message or a foreign path, and a timeout are findings.
A finding does not stop the campaign (libFuzzer would stop at the first one): it is written to
<out_dir>/finding_<key>.json, keyed by (exception type, innermost stone frame), and the run goes
on; the check re-validates every finding through the real specs_to_ir in its own interpreter and
derives the root-cause signature there.  <out_dir>/stats.json is rewritten every 2000 executions
(atexit handlers do not run under libFuzzer).
"""
import hashlib
import json
import os
import signal
import sys
import traceback

out_dir, repo = sys.argv[1], sys.argv[2]
sys.path.insert(0, repo)
import atheris  # noqa: E402

with atheris.instrument_imports(include=['stone']):
    from stone.frontend.parser import ParserFactory
    from stone.frontend.ir_generator import IRGenerator
    from stone.frontend.exception import InvalidSpec

TOKENS = [
    '\n', '\n    ', '\n        ', '\n            ', '\n\n',
    'namespace', 'import', 'alias', 'struct', 'union', 'union_closed', 'route', 'patch', 'annotation',
    'annotation_type', 'extends', 'example', 'attrs', 'deprecated', 'by', 'stone_cfg', 'Route',
    '(', ')', ',', '=', '?', '.', ':', '*', '@', '{', '}', '[', ']', '|', '-', '#',
    'String', 'Int32', 'Int64', 'UInt32', 'UInt64', 'Float32', 'Float64', 'Boolean', 'Bytes',
    'Timestamp', 'List', 'Map', 'Void', 'Nullable',
    'min_length', 'max_length', 'pattern', 'min_value', 'max_value', 'min_items', 'max_items',
    'Deprecated', 'Preview', 'Omitted', 'RedactedBlot', 'RedactedHash',
    'a', 'b', 'c', 'x', 'A', 'B', 'C', 'S', 'T', 'U', 'f', 'g', 'tag_x', 'other', 'default', 'ns2',
    'get/metadata', 'r:2',
    '"s"', '"doc :type:`A` :field:`f` :route:`r` :val:`x` :link:`t u`"', '"%Y-%m-%d"', '""',
    '1', '0', '-1', '2', '1.5', '1e3', '99999999999999999999', 'true', 'false', 'null',
    '"', '\\', '\t', ' ', '  ', '\r',
]
assert len(TOKENS) <= 128


def decode(data):
    if not data:
        return [('a.stone', '')]
    mode = data[0]
    body = data[1:]
    if mode & 1 == 0:
        text = body.decode('utf-8', 'replace')
        if mode & 2:
            text = 'namespace x\n' + text
        texts = [text]
        if mode & 4 and '\x00' in text:
            texts = text.split('\x00', 1)
    else:
        texts = [[]]
        prev_nl = True
        for b in body:
            if b == 0xff and len(texts) < 2:
                texts.append([])
                prev_nl = True
                continue
            t = TOKENS[b % len(TOKENS)]
            glue = b & 0x80          # high bit: no separating blank (e.g. `String?`, `a.b`, `f(`)
            if t.startswith('\n'):
                texts[-1].append(t)
                prev_nl = True
            else:
                texts[-1].append(('' if prev_nl or glue else ' ') + t)
                prev_nl = False
        texts = [''.join(t) for t in texts]
        if mode & 2:
            texts = ['namespace x%d\n' % i + t for i, t in enumerate(texts)]
    return [('%s.stone' % 'ab'[i], t) for i, t in enumerate(texts[:2])]


class Timeout(Exception):
    pass


def on_alarm(signum, frame):
    raise Timeout()


signal.signal(signal.SIGALRM, on_alarm)
stats = {'execs': 0, 'api': 0, 'invalid': 0, 'lexer_or_parser_rejected': 0, 'escape': 0, 'hang': 0,
         'past_parser': 0, 'token_mode': 0, 'two_files': 0}
seen = set()
past_parser_hashes = set()
pf = [ParserFactory()]


def finding(key, kind, specs, detail):
    if key in seen:
        return
    seen.add(key)
    h = hashlib.sha1(key.encode()).hexdigest()[:16]
    with open(os.path.join(out_dir, 'finding_%s.json' % h), 'w') as f:
        json.dump({'key': key, 'kind': kind, 'specs': specs, 'detail': detail}, f)


def compile_specs(specs):
    """specs_to_ir's body with one ParserFactory reused (documented get_parser() reuse)."""
    asts = []
    for path, text in specs:
        pf[0].errors = []
        pf[0].lexer.errors = []
        parser = pf[0].get_parser()
        ast = parser.parse(text, path)
        if parser.got_errors_parsing():
            msg, lineno, p = parser.get_errors()[0]
            stats['lexer_or_parser_rejected'] += 1
            raise InvalidSpec(msg, lineno, p)
        if len(ast):
            asts.append(ast)
    stats['past_parser'] += 1
    return IRGenerator(asts, '0.1b1').generate_IR()


def test_one_input(data):
    specs = decode(data)
    stats['execs'] += 1
    if data and data[0] & 1:
        stats['token_mode'] += 1
    if len(specs) > 1:
        stats['two_files'] += 1
    paths = [p for p, _ in specs]
    signal.alarm(10)
    try:
        try:
            compile_specs(specs)
            stats['api'] += 1
        finally:
            signal.alarm(0)
    except InvalidSpec as e:
        stats['invalid'] += 1
        if not (isinstance(e.msg, str) and e.msg.strip()):
            finding('shape|empty-message', 'shape', specs, repr(e.msg))
        elif e.path is not None and e.path not in paths:
            finding('shape|foreign-path', 'shape', specs, repr(e.path))
    except Timeout:
        stats['hang'] += 1
        pf[0] = ParserFactory()
        finding('hang', 'hang', specs, '10 s')
    except Exception as e:  # the oracle: nothing but InvalidSpec may escape
        stats['escape'] += 1
        pf[0] = ParserFactory()      # ply keeps parser state when an action raises
        tb = traceback.extract_tb(e.__traceback__)
        inner = None
        for fr in tb:
            if '/stone/' in fr.filename.replace('\\', '/'):
                inner = fr
        inner = inner or tb[-1]
        key = 'escape|%s|%s:%s:%s' % (type(e).__name__, os.path.basename(inner.filename), inner.name,
                                      inner.lineno)
        finding(key, 'escape', specs, str(e)[:200])
    if stats['execs'] % 2000 == 0:
        dump()


def dump():
    with open(os.path.join(out_dir, 'stats.json.tmp'), 'w') as f:
        json.dump(stats, f)
    os.replace(os.path.join(out_dir, 'stats.json.tmp'), os.path.join(out_dir, 'stats.json'))


if __name__ == '__main__':
    atheris.Setup([sys.argv[0]] + sys.argv[3:], test_one_input)
    atheris.Fuzz()
