"""Model -> [(path, text)] under a layout (file assignment, order, noise, continuations)."""
from hypothesis import strategies as st

from . import model as M


def fmt_float(v):
    """Stone's FLOAT token is -?\\d+(\\.\\d*(e-?\\d+)?|e-?\\d+): no '+' in exponents."""
    s = repr(float(v))
    assert 'inf' not in s and 'nan' not in s
    return s.replace('e+', 'e')


def fmt_string(s):
    out = s.replace('\\', '\\\\').replace('"', '\\"').replace('\n', '\\n').replace('\t', '\\t')
    return '"%s"' % out


def fmt_literal(v):
    if v is None:
        return 'null'
    if v is True:
        return 'true'
    if v is False:
        return 'false'
    if isinstance(v, int):
        return str(v)
    if isinstance(v, float):
        return fmt_float(v)
    if isinstance(v, str):
        return fmt_string(v)
    raise AssertionError(repr(v))


def fmt_type(t, ns, cont=None):
    k = t[0]
    if k == 'prim':
        params = M.pparams(t)
        if not params:
            return t[1]
        if t[1] == 'Timestamp':
            return 'Timestamp(%s)' % fmt_string(params['format'])
        return '%s(%s)' % (t[1], ', '.join('%s=%s' % (p, fmt_literal(v))
                                            for p, v in sorted(params.items())))
    if k == 'nullable':
        return fmt_type(t[1], ns) + '?'
    if k == 'list':
        args = [fmt_type(t[1], ns)]
        if t[2] is not None:
            args.append('min_items=%d' % t[2])
        if t[3] is not None:
            args.append('max_items=%d' % t[3])
        return 'List(%s)' % ', '.join(args)
    if k == 'map':
        return 'Map(%s, %s)' % (fmt_type(t[1], ns), fmt_type(t[2], ns))
    if k in ('ref', 'alias'):
        return t[2] if t[1] == ns else '%s.%s' % (t[1], t[2])
    raise AssertionError(t)


def fmt_exval(v):
    k = v[0]
    if k == 'lit':
        return fmt_literal(v[1])
    if k == 'ref':
        return v[1]
    if k == 'list':
        return '[%s]' % ', '.join(fmt_exval(x) for x in v[1])
    if k == 'map':
        return '{%s}' % ', '.join('%s: %s' % (fmt_string(key), fmt_exval(x)) for key, x in v[1])
    raise AssertionError(v)


class Line:
    __slots__ = ('indent', 'text', 'noise_ok', 'raw', 'trail_ok')

    def __init__(self, indent, text, noise_ok=True, raw=False, trail_ok=True):
        self.trail_ok = trail_ok   # may trailing blanks / a trailing comment follow the text
        self.indent = indent
        self.text = text
        self.noise_ok = noise_ok   # may comments / blanks be inserted *before* this line
        self.raw = raw             # continuation of a multi-line string: emit verbatim


class Emitter:
    def __init__(self, ns, cont=0, inline=None):
        self.ns = ns
        self.lines = []
        self.cont = cont
        self.base = 0              # indentation offset while an inline (nested) definition is written
        self.inline = inline or {}  # (owner name, member name) -> definition written below that member
        self.owner = None

    def line(self, indent, text):
        self.lines.append(Line(indent + self.base, text))

    def doc(self, indent, text):
        """Multi-line strings: continuation lines start at the opening quote's column (LR
        "Struct": 'each subsequent line is at least at the indentation of the starting quote')."""
        if text is None:
            return
        body = text.replace('\\', '\\\\').replace('"', '\\"').replace('\t', '\\t')
        parts = body.split('\n')
        if len(parts) == 1:
            self.line(indent, '"%s"' % parts[0])
            return
        self.lines.append(Line(indent + self.base, '"' + parts[0], trail_ok=False))
        for i, p in enumerate(parts[1:]):
            last = i == len(parts) - 2
            txt = ((' ' * (4 * (indent + self.base))) + p) if p else ''
            self.lines.append(Line(0, txt + ('"' if last else ''), noise_ok=False, raw=True))

    def annots(self, indent, annots):
        for ans, aname in annots:
            self.line(indent, '@%s' % (aname if ans == self.ns else '%s.%s' % (ans, aname)))

    def default(self, f):
        d = f.get('default')
        if d is None:
            return ''
        if d[0] == 'tag':
            return ' = %s' % d[1]
        return ' = %s' % fmt_literal(d[1])

    def nested(self, indent, member):
        """LR "Nested Definitions": the member's type defined inline, below its annotations and doc."""
        d = self.inline.get((self.owner, member['name']))
        if d is None:
            return
        save_base, save_owner = self.base, self.owner
        self.base = save_base + indent
        self.definition(d, 'base', nested=True)
        self.base, self.owner = save_base, save_owner

    def field(self, indent, f):
        self.line(indent, '%s %s%s' % (f['name'], fmt_type(f['type'], self.ns), self.default(f)))
        self.annots(indent + 1, f.get('annots') or [])
        self.doc(indent + 1, f.get('doc'))
        self.nested(indent + 1, f)

    def tag(self, indent, t):
        if t['type'] is None:
            self.line(indent, t['name'])
        else:
            self.line(indent, '%s %s' % (t['name'], fmt_type(t['type'], self.ns)))
        self.annots(indent + 1, t.get('annots') or [])
        self.doc(indent + 1, t.get('doc'))
        self.nested(indent + 1, t)

    def example(self, indent, ex, names):
        self.line(indent, 'example %s' % ex['label'])
        if not any(name in names for name, _ in ex['fields']):
            return      # grammar: a doc needs at least one example field after it
        self.doc(indent + 1, ex.get('doc'))
        for name, v in ex['fields']:
            if name not in names:
                continue
            if v[0] == 'map' and v[1] and self.cont & 4:
                # multi-line map (LR "Examples": be mindful of indentation rules)
                self.line(indent + 1, '%s = {' % name)
                items = v[1]
                for i, (key, x) in enumerate(items):
                    self.line(indent + 2, '%s: %s%s' % (fmt_string(key), fmt_exval(x),
                                                        ',' if i < len(items) - 1 else ''))
                self.line(indent + 1, '}')
            else:
                self.line(indent + 1, '%s = %s' % (name, fmt_exval(v)))

    def definition(self, d, part='base', nested=False):
        """part: 'base' (definition without patched members) or 'patch'."""
        k = d['k']
        ns = self.ns
        # members of anything else (annotation type parameters, the route schema) host no nested definition
        self.owner = d['name'] if k in ('struct', 'union') and part == 'base' else None
        if k == 'alias':
            self.line(0, 'alias %s = %s' % (d['name'], fmt_type(d['type'], ns)))
            self.annots(1, d.get('annots') or [])
            self.doc(1, d.get('doc'))
        elif k in ('struct', 'union'):
            members = d['fields'] if k == 'struct' else d['tags']
            npatch = d.get('patch') or 0
            base = members[:len(members) - npatch]
            patched = members[len(members) - npatch:]
            kw = 'struct' if k == 'struct' else ('union_closed' if d['closed'] else 'union')
            if part == 'patch':
                self.line(0, 'patch %s %s' % (kw, d['name']))
                mine = patched
            else:
                ext = ''
                if d.get('parent'):
                    ext = ' extends %s' % fmt_type(('ref',) + tuple(d['parent']), ns)
                self.line(0, (kw + ext) if nested else '%s %s%s' % (kw, d['name'], ext))
                self.doc(1, d.get('doc'))
                if k == 'struct' and d.get('subtypes'):
                    self.line(1, 'union_closed' if d['subtypes']['closed'] else 'union')
                    for tag, name in d['subtypes']['items']:
                        self.line(2, '%s %s' % (tag, name))
                mine = base
            for m in mine:
                (self.field if k == 'struct' else self.tag)(1, m)
            names_mine = {m['name'] for m in mine}
            for ex in d.get('examples') or []:
                if part == 'patch':
                    if any(n in names_mine for n, _ in ex['fields']):
                        self.example(1, dict(ex, doc=None), names_mine)
                else:
                    patched_names = {m['name'] for m in patched}
                    allowed = {n for n, _ in ex['fields']} - patched_names
                    self.example(1, ex, allowed)
        elif k == 'route':
            head = 'route %s' % d['name']
            if d['version'] != 1 or (self.cont & 8):
                head += ':%d' % d['version']
            io = [fmt_type(d[x], ns) for x in ('arg', 'result', 'error')]
            dep = ''
            if d['deprecated'] is True:
                dep = ' deprecated'
            elif d['deprecated']:
                dn, dv = d['deprecated']
                dep = ' deprecated by %s' % dn + (':%d' % dv if dv != 1 or (self.cont & 8) else '')
            if self.cont & 1:
                # LR "Line Continuations"
                self.line(0, head + '(')
                self.line(1, io[0] + ',')
                self.line(1, io[1] + ',')
                self.line(1, io[2] + ')' + dep)
            else:
                self.line(0, '%s(%s)%s' % (head, ', '.join(io), dep))
            self.doc(1, d.get('doc'))
            if d['attrs']:
                self.line(1, 'attrs')
                for key, v in d['attrs'].items():
                    self.line(2, '%s = %s' % (key, v[1] if v[0] == 'tag' else fmt_literal(v[1])))
        elif k == 'annotation':
            ans, aname = d['atype']
            tname = aname if ans in (None, ns) else '%s.%s' % (ans, aname)
            args = [fmt_literal(a) for a in d['args']] + \
                   ['%s=%s' % (key, fmt_literal(v)) for key, v in d['kwargs'].items()]
            self.line(0, 'annotation %s = %s(%s)' % (d['name'], tname, ', '.join(args)))
        elif k == 'annotation_type':
            self.line(0, 'annotation_type %s' % d['name'])
            self.doc(1, d.get('doc'))
            for p in d['params']:
                self.field(1, p)
        elif k == 'raw':
            for ind, text in d['lines']:
                self.line(ind, text)
        else:
            raise AssertionError(k)


def reference_layout(api):
    files = []
    for n in api['namespaces']:
        items = [('import', i) for i in n['imports']]
        items += [('def', i) for i in range(len(n['defs']))]
        items += [('patch', i) for i, d in enumerate(n['defs']) if d.get('patch')]
        files.append({'ns': n['name'], 'items': items, 'doc': 'doc'})
    return {'files': files, 'noise': [0], 'cont': 0, 'schema_pos': len(files)}


@st.composite
def layouts(draw, api, pin_docs=False):
    """Random layout: definitions split over 1-6 files per namespace, permuted definitions,
    permuted files, noise, continuation variants."""
    files = []
    for n in api['namespaces']:
        items = [('import', i) for i in n['imports']]
        items += [('def', i) for i in range(len(n['defs']))]
        items += [('patch', i) for i, d in enumerate(n['defs']) if d.get('patch')]
        items = draw(st.permutations(items))
        nfiles = draw(st.integers(1, 6))
        buckets = [[] for _ in range(nfiles)]
        for it in items:
            buckets[draw(st.integers(0, nfiles - 1))].append(it)
        buckets = [b for b in buckets if b] or [[]]
        docs = ['doc', 'doc2'] if draw(st.booleans()) else ['doc2', 'doc']
        for i, b in enumerate(buckets):
            files.append({'ns': n['name'], 'items': b, 'doc': docs[i] if i < 2 else None})
    files = list(draw(st.permutations(files)))
    if pin_docs:
        # namespace docs concatenate in file order (documented): keep the reference doc
        seen = set()
        for f in files:
            f['doc'] = 'doc' if f['ns'] not in seen else None
            seen.add(f['ns'])
    noise = draw(st.lists(st.integers(0, 11), min_size=1, max_size=12))
    cont = draw(st.integers(0, 15))
    nested = {}
    if draw(st.integers(0, 2)) == 0:
        nested = draw(nested_hosts(api))
    return {'files': list(files), 'noise': noise, 'cont': cont,
            'schema_pos': draw(st.integers(0, len(files))), 'nested': nested}


def nested_candidates(api):
    """(namespace, type name) -> [(owner name, member name)]: user types that can be written inline below a
    member typed by them (LR "Nested Definitions"; the grammar's anonymous definition is a full definition
    without the name): unpatched, and the member belongs to another unpatched definition of the same namespace."""
    out = {}
    for n in api['namespaces']:
        defs = {d['name']: d for d in n['defs'] if d['k'] in ('struct', 'union')}
        for d in defs.values():
            if d.get('patch'):
                continue
            for m in (d['fields'] if d['k'] == 'struct' else d['tags']):
                t = m['type']
                if t is not None and t[0] == 'nullable':
                    t = t[1]
                if t is None or t[0] != 'ref' or t[1] != n['name'] or t[2] == d['name']:
                    continue
                td = defs.get(t[2])
                if td is None or td.get('patch'):
                    continue        # (the grammar allows `extends`, a subtypes block and a default on the member)
                out.setdefault((n['name'], t[2]), []).append((d['name'], m['name']))
    return out


@st.composite
def nested_hosts(draw, api):
    cands = nested_candidates(api)
    chosen = {}
    hosts, inlined = set(), set()
    for key in sorted(cands):
        if draw(st.integers(0, 1)):
            continue
        owner, member = draw(st.sampled_from(cands[key]))
        # one level only: an inlined type hosts nothing, a host is not inlined itself
        if (key[0], owner) in inlined or key in hosts:
            continue
        chosen['%s.%s' % key] = [owner, member]
        inlined.add(key)
        hosts.add((key[0], owner))
    return chosen


NOISE_COMMENTS = ['# a comment', '    # indented comment', '  # odd indent: struct x', '#',
                  '         # deep "quoted" namespace', '# route r(Void, Void, Void)']


def _assemble(lines, noise):
    out = []
    k = 0
    for ln in lines:
        if ln.raw:
            out.append(ln.text)
            continue
        if ln.noise_ok:
            nz = noise[k % len(noise)]
            k += 1
            if nz == 6:
                out.append('')
            elif nz == 7:
                out.append(NOISE_COMMENTS[k % len(NOISE_COMMENTS)])
            elif nz == 8:
                out.append('   ')
        text = ' ' * (4 * ln.indent) + ln.text
        nz2 = noise[(k * 7 + 3) % len(noise)]
        if ln.trail_ok and ln.noise_ok:
            if nz2 == 9:
                text += '   '
            elif nz2 == 10:
                text += '  # trailing comment'
        out.append(text)
    return out


def render(api, layout=None):
    """Returns (specs, meta): specs = [(path, text)], meta['ns_docs'][ns] = docs in file order."""
    layout = layout or reference_layout(api)
    nsmap = {n['name']: n for n in api['namespaces']}
    specs = []
    ns_docs = {n['name']: [] for n in api['namespaces']}
    counter = {}
    files = list(layout['files'])
    out_files = []
    nested = layout.get('nested') or {}
    for f in files:
        n = nsmap[f['ns']]
        by_name = {d.get('name'): d for d in n['defs'] if d['k'] in ('struct', 'union')}
        inline = {}
        skip = set()
        for key, (owner, member) in nested.items():
            nsname, tname = key.split('.', 1)
            if nsname == n['name'] and tname in by_name and owner in by_name:
                inline[(owner, member)] = by_name[tname]
                skip.add(tname)
        em = Emitter(n['name'], layout['cont'], inline)
        em.line(0, 'namespace %s' % n['name'])
        doc = n.get(f['doc']) if f.get('doc') else None
        if doc is not None:
            em.doc(1, doc)
            ns_docs[n['name']].append(doc)
        for kind, i in f['items']:
            if kind == 'import':
                em.line(0, 'import %s' % i)
            elif kind == 'def':
                if n['defs'][i].get('name') in skip and n['defs'][i]['k'] in ('struct', 'union'):
                    continue        # written inline below the member that hosts it
                em.definition(n['defs'][i], 'base')
            else:
                em.definition(n['defs'][i], 'patch')
        c = counter.get(n['name'], 0)
        counter[n['name']] = c + 1
        path = '%s%s.stone' % (n['name'], '' if c == 0 else '_%d' % c)
        out_files.append((path, '\n'.join(_assemble(em.lines, layout['noise'])) + '\n'))
    if api.get('schema'):
        em = Emitter('stone_cfg', layout['cont'])
        em.line(0, 'namespace stone_cfg')
        for i in api['schema']['imports']:
            em.line(0, 'import %s' % i)
        if api['schema']['fields'] or api['schema'].get('raw_fields'):
            em.line(0, 'struct Route')
            for fld in api['schema']['fields']:
                em.field(1, fld)
            for ind, text in api['schema'].get('raw_fields') or []:
                em.line(ind, text)
        for ind, text in api['schema'].get('raw_extra') or []:
            em.line(ind, text)
        text = '\n'.join(_assemble(em.lines, layout['noise'])) + '\n'
        pos = min(layout.get('schema_pos', len(out_files)), len(out_files))
        out_files.insert(pos, ('stone_cfg.stone', text))
    return out_files, {'ns_docs': ns_docs}
