"""Token-level mutators for spec text (C03) and the short-token-string alphabet."""
import re

from hypothesis import strategies as st

TOKEN_RE = re.compile(
    r'"(?:[^\\"]|\\.)*"|#[^\n]*|[A-Za-z_][A-Za-z0-9_-]*|-?\d+(?:\.\d*)?(?:e-?\d+)?|'
    r'/[/a-zA-Z0-9_-]*|\n[ ]*|[ ]+|.', re.S)

REPLACEMENTS = ['struct', 'union', 'union_closed', 'route', 'alias', 'namespace', 'import',
                'patch', 'annotation', 'annotation_type', 'extends', 'deprecated', 'by', 'attrs',
                'example', 'doc', 'error', 'String', 'Int32', 'Float64', 'List', 'Map', 'Void',
                'Timestamp', 'Bytes', 'x', 'Foo', 'other', 'default', '(', ')', ',', '=', '?', '.',
                ':', '[', ']', '{', '}', '@', '*', '"s"', '""', '1', '0', '-1', '1.5', '1e3',
                'true', 'false', 'null', '/p', '\n', '\n    ', '\n        ', '\n  ']
STRAY = ['\t', '\r', '\x00', 'é', '数', '$', '!', ';', '\\', '"', "'", '`', '~', '\x0c', ' ',
         '﻿', '\x7f', '%', '&', '<', '|']
LITERAL_KINDS = ['"str"', '1', '-1', '1.5', 'true', 'null', 'tag_x', '[1]', '{"k": 1}', '[]', '{}']


def tokenize(text):
    return TOKEN_RE.findall(text)


def _solid(tokens):
    return [i for i, t in enumerate(tokens) if t.strip() and not t.startswith('#')]


def is_literal(tok):
    return (tok.startswith('"') or tok in ('true', 'false', 'null') or
            re.fullmatch(r'-?\d+(?:\.\d*)?(?:e-?\d+)?', tok) is not None)


OPS = ['delete', 'duplicate', 'swap', 'replace', 'litkind', 'indent', 'truncate', 'stray',
       'insert', 'dupline', 'delline',
       # edits that keep the text well formed but confuse its meaning (reach the semantic passes)
       'rename', 'adddefault', 'wraptype', 'docref', 'setvalue', 'recursive']
ALIAS_LINE = re.compile(r'^alias ([A-Za-z_][A-Za-z0-9_]*) = ([^\n#]+)', re.M)
RECURSIVE_SHAPES = ['List(%s)', 'Map(String, %s)', 'List(%s?)', '%s?', 'Map(String, List(%s))', 'List(List(%s), max_items=2)', '%s']


def _recursive_alias(text, pos, pay):
    """Make an alias refer to itself (or two aliases to each other) through containers / nullables."""
    ms = list(ALIAS_LINE.finditer(text))
    if not ms:
        return text
    a = ms[pos % len(ms)]
    shape = RECURSIVE_SHAPES[pay % len(RECURSIVE_SHAPES)]
    if len(ms) >= 2 and (pay // 7) % 2:
        b = ms[(pos + 1 + pay // 14) % len(ms)]
        if b.start() != a.start():
            first, second = sorted([a, b], key=lambda m: m.start())
            rep = {first.start(): shape % second.group(1),
                   second.start(): RECURSIVE_SHAPES[(pay // 3) % len(RECURSIVE_SHAPES)] % first.group(1)}
            out = text
            for m in (second, first):
                out = out[:m.start(2)] + rep[m.start()] + out[m.end(2):]
            return out
    return text[:a.start(2)] + (shape % a.group(1)) + text[a.end(2):]

IDENT_RE = re.compile(r'[A-Za-z_][A-Za-z0-9_]*')
KEYWORDS = {'struct', 'union', 'union_closed', 'route', 'alias', 'namespace', 'import', 'patch',
            'annotation', 'annotation_type', 'extends', 'deprecated', 'by', 'attrs', 'example'}
VALUES = LITERAL_KINDS + ['[null]', '[[1]]', '{"k": null}', '["a", 1]', '""', '0', '1e400', '-0.0',
                          '99999999999999999999', '"2020-01-01"', 'default', 'other']
DOCREFS = [':field:`%s`', ':field:`%s.%s`', ':type:`%s`', ':type:`%s.%s`', ':route:`%s`', ':route:`%s:2`',
           ':route:`%s.%s`', ':val:`%s`', ':link:`%s`', ':link:`%s %s`', ':field:`%s.%s.%s`', ':type:`%s?`']


def _semantic_edit(op, toks, solid, pos, pay):
    idents = [k for k in solid if IDENT_RE.fullmatch(toks[k]) and toks[k] not in KEYWORDS]
    names = sorted({toks[k] for k in idents}) or ['x']

    def name(n):
        return names[n % len(names)]
    if op == 'rename':
        if idents:
            toks[idents[pos % len(idents)]] = name(pay)
    elif op == 'adddefault':
        # end of a line that starts with an identifier (a field, tag, alias or attribute line)
        ends = [k for k in range(1, len(toks)) if toks[k].startswith('\n') and toks[k - 1].strip()]
        if ends:
            k = ends[pos % len(ends)]
            v = VALUES[pay % len(VALUES)] if pay % 3 else name(pay // 3)
            toks.insert(k, ' = ' + v)
    elif op == 'wraptype':
        caps = [k for k in idents if toks[k][0].isupper()]
        if caps:
            k = caps[pos % len(caps)]
            t = toks[k]
            toks[k] = ['List(%s)', 'Map(String, %s)', '%s?', '%s(1)', 'List(%s?)', 'Map(%s, String)',
                       'List(List(%s), max_items=1)', '%s()', 'List(%s, min_items=-1)',
                       'Map(String, %s)?'][pay % 10] % t
    elif op == 'docref':
        strs = [k for k in solid if toks[k].startswith('"') and len(toks[k]) >= 2]
        ref = DOCREFS[pay % len(DOCREFS)]
        ref = ref % tuple(name(pay // 7 + j * 13 + pos) for j in range(ref.count('%s')))
        if strs:
            k = strs[pos % len(strs)]
            toks[k] = toks[k][:-1] + ' ' + ref + '"'
        else:
            nls = [k for k, t in enumerate(toks) if t.startswith('\n')]
            if nls:
                k = nls[pos % len(nls)]
                toks.insert(k + 1, '"%s"%s' % (ref, toks[k]))
    elif op == 'setvalue':
        eqs = [k for k in solid if toks[k] == '=']
        if eqs:
            k = eqs[pos % len(eqs)]
            j = k + 1
            while j < len(toks) and not toks[j].startswith('\n'):
                j += 1
            v = VALUES[pay % len(VALUES)] if pay % 4 else name(pay // 4)
            toks[k + 1:j] = [' ' + v]
    return toks


def apply_edit(text, edit):
    """edit = (op, position 0..9999, payload 0..9999); total function (returns text unchanged
    when the op does not apply)."""
    op, pos, pay = edit
    if op == 'recursive':
        return _recursive_alias(text, pos, pay)
    toks = tokenize(text)
    solid = _solid(toks)
    if not solid:
        return text + REPLACEMENTS[pay % len(REPLACEMENTS)]
    i = solid[pos % len(solid)]
    if op == 'delete':
        del toks[i]
    elif op == 'duplicate':
        toks.insert(i, toks[i] + ' ')
    elif op == 'swap':
        j = solid[(pos + 1 + pay % 3) % len(solid)]
        toks[i], toks[j] = toks[j], toks[i]
    elif op == 'replace':
        toks[i] = REPLACEMENTS[pay % len(REPLACEMENTS)]
    elif op == 'insert':
        toks.insert(i, REPLACEMENTS[pay % len(REPLACEMENTS)] + ' ')
    elif op == 'litkind':
        lits = [k for k in solid if is_literal(toks[k])]
        if lits:
            toks[lits[pos % len(lits)]] = LITERAL_KINDS[pay % len(LITERAL_KINDS)]
    elif op == 'indent':
        nls = [k for k, t in enumerate(toks) if t.startswith('\n')]
        if nls:
            k = nls[pos % len(nls)]
            delta = (pay % 15) - 7 or 1
            cur = len(toks[k]) - 1
            toks[k] = '\n' + ' ' * max(0, cur + delta)
    elif op == 'truncate':
        toks = toks[:i + (pay % 2)]
    elif op == 'stray':
        toks.insert(i, STRAY[pay % len(STRAY)])
    elif op in ('rename', 'adddefault', 'wraptype', 'docref', 'setvalue'):
        toks = _semantic_edit(op, toks, solid, pos, pay)
    elif op in ('dupline', 'delline'):
        lines = ''.join(toks).split('\n')
        k = pos % len(lines)
        if op == 'dupline':
            lines.insert(k, lines[k])
        else:
            del lines[k]
        return '\n'.join(lines)
    return ''.join(toks)


def edits():
    return st.tuples(st.sampled_from(OPS), st.integers(0, 9999), st.integers(0, 9999))


def splice(a, b, cut_a, cut_b):
    """First lines of a + last lines of b."""
    la, lb = a.split('\n'), b.split('\n')
    return '\n'.join(la[:cut_a % (len(la) + 1)] + lb[cut_b % (len(lb) + 1):])


# alphabet for exhaustive short strings after a `namespace x` header
SHORT_ALPHABET = ['struct', 'union', 'route', 'alias', 'import', 'patch', 'annotation',
                  'annotation_type', 'extends', 'example', 'attrs', 'deprecated', 'a', 'B',
                  'String', 'Void', '(', ')', ',', '=', '?', '.', ':', '"s"', '1', '\n', '\n    ',
                  '\n        ']
CORE_ALPHABET = ['struct', 'union', 'route', 'alias', 'a', 'B', 'String', '=', '\n', '\n    ']


def short_string(indices, alphabet=SHORT_ALPHABET):
    out = 'namespace x\n'
    prev_nl = True
    for i in indices:
        t = alphabet[i]
        if t.startswith('\n'):
            out += t
            prev_nl = True
        else:
            out += ('' if prev_nl else ' ') + t
            prev_nl = False
    return out
