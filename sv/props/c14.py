"""C14 - generated Python client methods send the right route and argument."""
import inspect
import warnings

from hypothesis import strategies as st

from .. import core, gen, pyrt, pygen, render, values, model as M
from ..core import Part

RULE = ('generated specs whose routes take struct arguments with inherited, defaulted (every literal kind, '
        'tag refs, other namespaces), nullable and aliased fields, union and Void arguments, versions 1-3, '
        'deprecation with / without successor, rpc / upload / download styles, routes-only namespaces; '
        'python_types + python_client are generated into one package, a subclass records request(). Oracle: '
        'method <ns>_<route>[_vN] exists; inspect.signature = [f if upload] + required fields positional in '
        'declaration order + optional fields as keywords whose defaults equal the spec defaults (None for '
        'nullable); one request() call with the module\'s route object, the namespace name, an argument the '
        'walker finds equal to the struct built from the parameters (the union itself / None for Void) and '
        'the body for uploads; DeprecationWarning iff deprecated; returns the recorded result (None for a '
        'Void result). non-trivial = struct argument with inherited and optional fields, or cross-namespace '
        'argument, or upload / deprecated route; distinct by (spec, route, call). One argument struct in three (or an ancestor) gains a tag-default field whose union lives in another namespace, directly or through an alias declared in the struct namespace; literal defaults are compared as the compiler accepted them.')
ASSUMPTIONS = ['Route arguments are structs, unions or Void (the statement\'s domain); the _to_file variants '
               'of download routes are not judged.']

C14_CFG = dict(alias_tag_defaults=True, omitted=False, schema='client', max_ns=3, max_types=6, max_routes=4, examples=False,
               route_io_any=False, min_types=0)


@st.composite
def cases(draw):
    api = draw(gen.api_models(gen.Cfg(**C14_CFG)))
    idx = M.Index(api)
    # argument structs (and their ancestors) with a tag default whose union lives in another namespace
    # than the struct: the client has to spell the default with the union's namespace
    k = 0
    for ns, r in list(idx.routes()):
        b = idx.base(r['arg']) if r['arg'] != M.VOID else None
        if b is None or b[0] != 'ref' or idx.get(b[1], b[2])['k'] != 'struct' or draw(st.integers(0, 2)):
            continue
        chain = idx.chain(b[1], idx.get(b[1], b[2]))
        sn, sd = chain[draw(st.integers(0, len(chain) - 1))]
        if sd.get('patch') or sd.get('subtypes'):
            continue
        nsd = idx.ns[sn]
        foreign = [(un, u) for un in nsd['imports'] for u in idx.ns[un]['defs'] if u['k'] == 'union' and
                   any(tg['type'] is None for _, _, tg in idx.union_all_tags(un, u, False))]
        if not foreign:
            continue
        un, u = draw(st.sampled_from(foreign))
        voids = [tg['name'] for _, _, tg in idx.union_all_tags(un, u, False) if tg['type'] is None]
        taken = set()
        stack = [chain[0]]
        while stack:
            a, x = stack.pop()
            taken |= {f['name'] for f in x['fields']}
            stack += idx.children(a, x['name'])
        k += 1
        name = 'zz_mode%d' % k
        if name in taken:
            continue
        ftype = ('ref', un, u['name'])
        if draw(st.integers(0, 2)) == 0 and 'zzalias%d' % k not in {M.canon(x.get('name', '')) for x in nsd['defs']}:
            # ... and typed through an alias that is declared in the struct's namespace, not the union's
            nsd['defs'].append({'k': 'alias', 'name': 'ZzAlias%d' % k, 'type': ftype, 'doc': None, 'annots': []})
            ftype = ('alias', sn, 'ZzAlias%d' % k)
        sd['fields'].append({'name': name, 'type': ftype, 'doc': None,
                             'default': ('tag', draw(st.sampled_from(voids))), 'annots': []})
    idx = M.Index(api)
    costs = values.Costs(idx)
    calls = []
    for ns, r in idx.routes():
        b = idx.base(r['arg']) if r['arg'] != M.VOID else None
        if b is not None and b[0] != 'ref':
            continue
        if b is not None and costs.texpr(r['arg']) >= values.Costs.INF:
            continue
        for _ in range(draw(st.integers(1, 2))):
            v = None if b is None else draw(values.value_for(idx, costs, b, fuel=draw(st.integers(0, 2)), exact_top=True))
            how = draw(st.integers(0, 2))      # 0 positional required, 1 all keywords, 2 mixed
            calls.append((ns, r['name'], r['version'], v, how))
    return {'api': api, 'calls': calls}


def spec_default(idx, f):
    d = f.get('default')
    if d is None:
        return None
    return d


def run(case, rec):
    api = case['api']
    idx = M.Index(api)
    specs, _ = render.render(api)
    try:
        pkg = pygen.PyPkg(specs, client=True)
    except pygen.BuildFailure as e:
        if e.stage in ('python_client', 'import_client'):
            from .c09 import tb_text_sig
            rec.violation('C14|client-%s|%s' % ('crash' if e.stage == 'python_client' else 'import', tb_text_sig(e.tb)),
                          'python_client output unusable: %s' % e.tb.strip().split('\n')[-1][:200], case=case, human=specs)
        else:
            rec.note('build_failed(judged by C09):%s:%s' % (e.stage, type(e.exc).__name__))
        return
    ss, bv, bb = pygen.stone_runtime()
    try:
        base_cls = pkg.client_mod.ClientBase
        sentinel = object()

        class Rec(base_cls):
            def __init__(self):
                self.calls = []

            def request(self, route, namespace, request_arg, request_binary, timeout=None):
                self.calls.append((route, namespace, request_arg, request_binary))
                return sentinel
        for ns, rname, version, v, how in case['calls']:
            r = [x for n, x in idx.routes() if n == ns and x['name'] == rname and x['version'] == version][0]
            one = {'api': api, 'calls': [(ns, rname, version, v, how)]}
            human = {'files': specs, 'route': '%s.%s:%d' % (ns, rname, version), 'value': repr(v)[:500]}
            style = (r['attrs'].get('style') or ('lit', 'rpc'))[1]
            b = idx.base(r['arg']) if r['arg'] != M.VOID else None
            argd = idx.get(b[1], b[2]) if b else None
            shape = 'void' if b is None else argd['k']
            allf = idx.struct_all_fields(b[1], argd) if shape == 'struct' else []
            # literal defaults as the compiler accepted them (the API description): how the lexer reads a
            # string literal is judged once, by C02
            ir_lit = {}
            if shape == 'struct':
                try:
                    for f_ in pkg.api.namespaces[b[1]].data_type_by_name[b[2]].all_fields:
                        if f_.has_default and not hasattr(f_.default, 'tag_name'):
                            ir_lit[f_.name] = f_.default
                except Exception:
                    ir_lit = {}
            nontriv = (shape == 'struct' and argd.get('parent') and any(idx.is_optional(f) for _, _, f in allf)) or \
                (b is not None and b[1] != ns) or style == 'upload' or r['deprecated'] is not None or version > 1
            rec.case(core.h64((repr(specs), ns, rname, version, repr(v), how)), bool(nontriv),
                     classes=['arg:' + shape, 'style:' + style, 'version:%d' % min(version, 3)] +
                     (['deprecated'] if r['deprecated'] else []) + (['xns_arg'] if b is not None and b[1] != ns else []),
                     sample=lambda: {'route': human['route'], 'arg': shape, 'style': style, 'value': repr(v)[:200]})

            def viol(kind, what, detail=''):
                rec.violation('C14|%s|%s' % (kind, detail), '%s [route %s, %s arg, style %s]' % (what, human['route'], shape, style),
                              case=one, human=human)
            mname = '%s_%s' % (ns, pyrt.route_attr_name(rname, version))
            method = getattr(Rec, mname, None)
            if method is None:
                viol('missing-method', 'no method %s' % mname, shape)
                continue
            # ---- signature
            params = list(inspect.signature(method).parameters.values())[1:]
            exp = []
            if style == 'upload':
                exp.append(('f', inspect.Parameter.empty))
            if shape == 'struct':
                for _, _, f in allf:
                    if idx.is_nullable(f['type']):
                        exp.append((f['name'], None))
                    elif f.get('default') is not None:
                        exp.append((f['name'], f['default']))
                    else:
                        exp.append((f['name'], inspect.Parameter.empty))
            elif shape == 'union':
                exp.append(('arg', inspect.Parameter.empty))
            got_names = [p.name for p in params]
            if got_names != [n for n, _ in exp]:
                viol('signature-names', 'parameters %s, expected %s' % (got_names, [n for n, _ in exp]), shape)
                continue
            bad_default = False
            for p, (n, d) in zip(params, exp):
                if d is inspect.Parameter.empty or d is None:
                    if p.default is not d:
                        viol('signature-default', 'parameter %s has default %r, expected %s' % (
                            n, p.default, 'none' if d is None else 'no default'), 'required' if d is not None else 'nullable')
                        bad_default = True
                elif d[0] == 'tag':
                    if not (isinstance(p.default, bb.Union) and p.default._tag == d[1] and p.default._value is None):
                        viol('signature-default', 'parameter %s has default %r, expected tag %s' % (n, p.default, d[1]), 'tag')
                        bad_default = True
                else:
                    f = [x for _, _, x in allf if x['name'] == n][0]
                    fb = idx.base(f['type'])
                    lit = ir_lit.get(n, d[1])
                    want = float(lit) if fb[0] == 'prim' and fb[1] in M.FLOATS else lit
                    if p.default != want or isinstance(p.default, bool) != isinstance(want, bool):
                        viol('signature-default', 'parameter %s has default %r, expected %r' % (n, p.default, want), 'literal')
                        bad_default = True
            # ---- call
            client = Rec()
            args, kwargs = [], {}
            body = b'BODY' if style == 'upload' else None
            if style == 'upload':
                args.append(body)
            expected_arg = None
            try:
                if shape == 'struct':
                    ftypes = {f['name']: f for _, _, f in allf}
                    exp_fields = {}
                    for _, _, f in allf:
                        n = f['name']
                        if n in v[2]:
                            pyv = values.materialize(pkg, idx, f['type'], v[2][n])
                            required = not idx.is_optional(f)
                            if required and how == 0 or (how == 2 and required and len(args) == (1 if body else 0) + len([1 for _, _, g in allf if not idx.is_optional(g) and g['name'] in kwargs]) * 0 and not kwargs):
                                args.append(pyv)
                            else:
                                kwargs[n] = pyv
                            exp_fields[n] = v[2][n]
                        elif f.get('default') is not None:
                            # the signature default is passed on to the constructor, i.e. it is set
                            d = f['default']
                            fb = idx.base(f['type'])
                            if d[0] == 'tag':
                                exp_fields[n] = ('union', (fb[1], fb[2]), d[1], None)
                            else:
                                lit = ir_lit.get(n, d[1])
                                exp_fields[n] = float(lit) if fb[0] == 'prim' and fb[1] in M.FLOATS else lit
                    expected_arg = ('struct', v[1], exp_fields)
                elif shape == 'union':
                    uobj = values.materialize(pkg, idx, b, v)
                    if how == 1:
                        kwargs['arg'] = uobj
                    else:
                        args.append(uobj)
            except Exception as e:
                rec.note('materialize_failed:%s' % type(e).__name__)
                continue
            with warnings.catch_warnings(record=True) as caught:
                warnings.simplefilter('always')
                try:
                    ret = getattr(client, mname)(*args, **kwargs)
                except Exception as e:
                    viol('call-raised', 'calling the method raised %r' % (e,), type(e).__name__ + ':' + shape)
                    continue
            dep = [w for w in caught if issubclass(w.category, DeprecationWarning)]
            if bool(dep) != (r['deprecated'] is not None):
                viol('deprecation-warning', 'DeprecationWarning %s but the route is %sdeprecated' % (
                    'raised' if dep else 'not raised', '' if r['deprecated'] else 'not '), 'extra' if dep else 'missing')
            if len(client.calls) != 1:
                viol('request-count', 'request() called %d times' % len(client.calls))
                continue
            route_obj, namespace, request_arg, request_binary = client.calls[0]
            want_route = getattr(pkg.mods[ns], pyrt.route_attr_name(rname, version), None)
            if route_obj is not want_route:
                viol('wrong-route', 'request() got route %r, expected %s.%s' % (route_obj, ns, pyrt.route_attr_name(rname, version)))
            if namespace != ns:
                viol('wrong-namespace', 'request() got namespace %r' % (namespace,))
            if request_binary is not body:
                viol('wrong-body', 'request() got body %r, expected %r' % (request_binary, body), style)
            if shape == 'void':
                if request_arg is not None:
                    viol('wrong-arg', 'Void argument sent as %r' % (request_arg,), 'void')
            elif shape == 'union':
                if request_arg is not uobj:
                    viol('wrong-arg', 'union argument not passed through', 'union')
            else:
                diff = values.same(idx, b, request_arg, expected_arg)
                if diff:
                    viol('wrong-arg', 'argument differs from the struct built from the parameters: %s' % diff,
                         pyrt.path_kind(diff))
            want_ret = None if r['result'] == M.VOID else sentinel
            if ret is not want_ret:
                viol('wrong-return', 'method returned %r, expected %s' % (ret, 'None' if want_ret is None else 'the request result'),
                     'void-result' if want_ret is None else 'result')
    finally:
        pkg.close()


def parts(ctx):
    return [Part('client', run, strategy=cases(), n=ctx.n(500, 6000), budget_s=ctx.n(150, 3000))]
