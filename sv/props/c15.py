"""C15 - Python type stubs describe exactly what the generated modules define."""
import ast
import inspect
import os

from hypothesis import strategies as st

from .. import core, gen, pyrt, pygen, render, model as M
from ..core import Part

RULE = ('generated specs compiled with python_types and python_type_stubs into one package; every .pyi is '
        'parsed with ast and compared with the imported runtime module of the same namespace: same classes '
        'with the same bases for structs and unions, same field attributes, same __init__ parameter names, '
        'same is_/get_/creator helpers and void-tag attributes, same <Name>_validator, alias and route '
        'names (both directions); each field / tag / helper annotation equals an independent Stone->PEP 484 '
        'mapping (Text, int, float, bool, bytes, datetime.datetime, List[..], Dict[..], Optional[..], Class '
        'or ns.Class); every name used in an annotation is imported or defined in the stub. non-trivial = '
        'spec with nullable, list, map, timestamp, cross-namespace reference or alias; distinct by spec hash. Each API description is handed to the stub backend a second time and the two outputs must be identical.')
ASSUMPTIONS = ['No mypy in the sandbox: validity is syntactic validity plus name resolution, as the statement lists.',
               'ROUTES and private (underscore) members are not part of the compared surface.']

C15_CFG = dict(omitted=True, schema='plain', max_ns=3, max_types=6, max_routes=3, examples=False)
BUILTIN_NAMES = {'int', 'float', 'bool', 'bytes', 'None', 'object', 'str'}


def py_type(idx, ns, t):
    k = t[0]
    if k == 'prim':
        return {'String': 'Text', 'Boolean': 'bool', 'Bytes': 'bytes', 'Timestamp': 'datetime.datetime',
                'Void': 'None'}.get(t[1]) or ('float' if t[1] in M.FLOATS else 'int')
    if k == 'list':
        return 'List[%s]' % py_type(idx, ns, t[1])
    if k == 'map':
        return 'Dict[%s, %s]' % (py_type(idx, ns, t[1]), py_type(idx, ns, t[2]))
    if k == 'nullable':
        return 'Optional[%s]' % py_type(idx, ns, t[1])
    if k == 'alias':
        return py_type(idx, ns, idx.get(t[1], t[2])['type'])
    return t[2] if t[1] == ns else '%s.%s' % (t[1], t[2])


def norm(src):
    return ast.unparse(ast.parse(src, mode='eval'))


def root_names(node):
    out = set()
    for n in ast.walk(node):
        if isinstance(n, ast.Name):
            out.add(n.id)
    return out


class Stub:
    def __init__(self, text):
        self.tree = ast.parse(text)
        self.classes = {}
        self.ann = {}          # module-level annotated names
        self.assign = {}       # module-level plain assignments  name -> source
        self.imported = set()
        self.dups = []
        for node in self.tree.body:
            if isinstance(node, ast.ClassDef):
                if node.name in self.classes:
                    self.dups.append(node.name)
                self.classes[node.name] = node
            elif isinstance(node, ast.AnnAssign) and isinstance(node.target, ast.Name):
                if node.target.id in self.ann:
                    self.dups.append(node.target.id)
                self.ann[node.target.id] = ast.unparse(node.annotation)
            elif isinstance(node, ast.Assign):
                for tg in node.targets:
                    if isinstance(tg, ast.Name):
                        self.assign[tg.id] = ast.unparse(node.value)
            elif isinstance(node, ast.ImportFrom):
                for a in node.names:
                    self.imported.add(a.asname or a.name)
            elif isinstance(node, ast.Import):
                for a in node.names:
                    self.imported.add((a.asname or a.name).split('.')[0])

    def defined(self):
        return set(self.classes) | set(self.ann) | set(self.assign) | self.imported


def class_members(node):
    fields, funcs = {}, {}
    for n in node.body:
        if isinstance(n, ast.AnnAssign) and isinstance(n.target, ast.Name):
            fields[n.target.id] = n
        elif isinstance(n, ast.FunctionDef):
            funcs[n.name] = n
    return fields, funcs


def run(case, rec):
    api = case['api']
    idx = M.Index(api)
    specs, _ = render.render(api)
    fs = gen.features(api)
    try:
        pkg = pygen.PyPkg(specs, stubs=True)
    except pygen.BuildFailure as e:
        if e.stage == 'python_type_stubs':
            from .c09 import tb_text_sig
            rec.violation('C15|stub-backend-crash|' + tb_text_sig(e.tb), 'python_type_stubs failed: %s' % (
                e.tb.strip().split('\n')[-1][:200]), case=case, human=specs)
        else:
            rec.note('build_failed(judged by C09):%s:%s' % (e.stage, type(e.exc).__name__))
        return
    ss, bv, bb = pygen.stone_runtime()
    # the same API description handed to a second stub run (another backend instance, another folder)
    # must give the same stubs: what the stubs declare may not depend on an earlier run
    import os
    import shutil
    import tempfile
    d2 = tempfile.mkdtemp(prefix='sv_c15_again_')
    try:
        from stone.compiler import Compiler
        import stone.backends.python_type_stubs as stub_backend
        Compiler(pkg.api, stub_backend, ['-p', pkg.pkg], d2).build()
        for root, _, names in os.walk(pkg.outdir):
            for fn in sorted(names):
                if fn.endswith('.pyi'):
                    rel = os.path.relpath(os.path.join(root, fn), pkg.outdir)
                    a = open(os.path.join(root, fn), 'rb').read()
                    other = os.path.join(d2, rel)
                    b = open(other, 'rb').read() if os.path.exists(other) else None
                    if a != b:
                        la, lb = a.decode().split('\n'), (b or b'').decode().split('\n')
                        first = next((x for x in la if x not in lb), None) or next((x for x in lb if x not in la), '')
                        rec.violation('C15|second-run-differs|' + ('import-line' if 'import' in first else 'other'),
                                      'a second python_type_stubs run on the same API description wrote a different %s: %r' % (
                                          rel, first[:120]), case=case, human=specs)
                        break
    except Exception as e:
        rec.violation('C15|second-run-raised|' + type(e).__name__, 'a second python_type_stubs run on the same API '
                      'description raised %r' % (e,), case=case, human=specs)
    finally:
        shutil.rmtree(d2, ignore_errors=True)
    rec.case(core.h64(repr(specs)), bool(fs & {'nullable', 'list', 'map', 'xns_ref', 'alias', 'alias_use'}),
             classes=sorted(fs & {'nullable', 'list', 'map', 'xns_ref', 'xns_parent', 'alias', 'alias_chain',
                                  'enumerated_subtypes', 'union_inheritance', 'default', 'route'}),
             sample=lambda: {'files': [(p, t[:400]) for p, t in specs[:2]]})

    def viol(kind, what, detail=''):
        rec.violation('C15|%s|%s' % (kind, detail), what, case=case, human=specs)
    try:
        for n in api['namespaces']:
            ns = n['name']
            path = os.path.join(pkg.outdir, ns + '.pyi')
            if not os.path.exists(path):
                viol('missing-stub', 'no stub file for namespace %s' % ns)
                continue
            text = open(path, encoding='utf-8').read()
            try:
                stub = Stub(text)
            except SyntaxError as e:
                viol('stub-syntax', 'stub of %s is not valid Python: %s' % (ns, e), str(e.msg)[:40])
                continue
            mod = pkg.mods[ns]
            defined = stub.defined() | BUILTIN_NAMES
            all_ns = {x['name'] for x in api['namespaces']}
            direct_ns = set()
            for d_ in n['defs']:
                ts_ = []
                if d_['k'] == 'alias':
                    ts_.append(d_['type'])
                elif d_['k'] in ('struct', 'union'):
                    ts_ += [m_['type'] for m_ in d_.get('fields', d_.get('tags')) if m_['type'] is not None]
                    if d_.get('parent'):
                        direct_ns.add(d_['parent'][0])
                elif d_['k'] == 'route':
                    ts_ += [d_['arg'], d_['result'], d_['error']]
                for t_ in ts_:
                    for sub_ in M.walk_types(t_):
                        if sub_[0] in ('ref', 'alias'):
                            direct_ns.add(sub_[1])

            def name_kind(name):
                if name in ('Optional', 'List', 'Dict', 'Text', 'datetime', 'Type', 'Callable', 'TypeVar'):
                    return name
                if name in all_ns:
                    # what matters is whether this namespace's own definitions mention the other namespace
                    # (an `import` line alone makes stone import nothing): the known finding is the namespace
                    # that is reached through inherited members only
                    return 'namespace-imported-by-the-spec' if name in direct_ns else \
                        'namespace-reached-only-through-inherited-members'
                return 'user-name'
            for dup in stub.dups:
                viol('declared-twice', '%s.%s declared twice in the stub' % (ns, dup))

            def check_ann(src, where, expected=None, kind='annotation'):
                try:
                    node = ast.parse(src, mode='eval')
                except SyntaxError:
                    viol('annotation-syntax', '%s: %r' % (where, src))
                    return
                for name in root_names(node):
                    if name not in defined:
                        viol('unresolved-name', '%s uses %s which the stub neither imports nor defines (%s)' % (
                            where, name, src), name_kind(name))
                if expected is not None and ast.unparse(node) != norm(expected):
                    viol('wrong-annotation', '%s is annotated %s, expected %s' % (where, src, expected), kind)
            exp_module_names = set()
            for d in n['defs']:
                name = d.get('name')
                if d['k'] in ('struct', 'union'):
                    exp_module_names |= {name, name + '_validator'}
                    node = stub.classes.get(name)
                    rt = getattr(mod, name, None)
                    if node is None:
                        viol('missing-class', 'stub of %s lacks class %s' % (ns, name), d['k'])
                        continue
                    bases = [ast.unparse(b) for b in node.bases]
                    want = ['bb.Struct' if d['k'] == 'struct' else 'bb.Union'] if not d['parent'] else \
                        [d['parent'][1] if d['parent'][0] == ns else '%s.%s' % tuple(d['parent'])]
                    if bases != want:
                        viol('wrong-bases', '%s.%s has bases %s in the stub, expected %s' % (ns, name, bases, want), d['k'])
                    rbases = [b.__name__ for b in rt.__bases__] if rt is not None else None
                    if rt is not None and [b.split('.')[-1] for b in bases] != rbases:
                        viol('bases-differ-from-runtime', '%s.%s: stub %s runtime %s' % (ns, name, bases, rbases), d['k'])
                    if stub.ann.get(name + '_validator') is None:
                        viol('missing-validator', 'stub of %s lacks %s_validator' % (ns, name), d['k'])
                    fields, funcs = class_members(node)
                    if d['k'] == 'struct':
                        allf = idx.struct_all_fields(ns, d)
                        names = [f['name'] for _, _, f in allf]
                        if sorted(fields) != sorted(names):
                            viol('field-attributes', '%s.%s declares attributes %s, the struct has %s' % (
                                ns, name, sorted(fields), sorted(names)), 'struct')
                        for _, _, f in allf:
                            if f['name'] in fields:
                                check_ann(ast.unparse(fields[f['name']].annotation), '%s.%s.%s' % (ns, name, f['name']),
                                          'bb.Attribute[%s]' % py_type(idx, ns, f['type']), 'field')
                            if rt is not None and not isinstance(inspect.getattr_static(rt, f['name'], None), bb.Attribute):
                                viol('runtime-lacks-attribute', '%s.%s.%s' % (ns, name, f['name']))
                        init = funcs.get('__init__')
                        if init is None:
                            viol('missing-init', '%s.%s' % (ns, name))
                        else:
                            params = [a.arg for a in init.args.args][1:]
                            rparams = list(inspect.signature(rt.__init__).parameters)[1:] if rt is not None else None
                            if params != rparams:
                                viol('init-params', '%s.%s.__init__ stub %s runtime %s' % (ns, name, params, rparams))
                            for a, (_, _, f) in zip(init.args.args[1:], allf):
                                if a.annotation is None:
                                    viol('missing-annotation', '%s.%s.__init__ %s' % (ns, name, a.arg))
                                    continue
                                t = py_type(idx, ns, f['type'])
                                if f.get('default') is not None:
                                    t = 'Optional[%s]' % t
                                check_ann(ast.unparse(a.annotation), '%s.%s.__init__(%s)' % (ns, name, a.arg), t, 'init-param')
                        extra = set(funcs) - {'__init__', '_process_custom_annotations'}
                        if extra:
                            viol('extra-members', '%s.%s declares %s' % (ns, name, sorted(extra)), 'struct')
                    else:
                        own = list(d['tags'])
                        if idx.has_catch_all_own(ns, d):
                            own.append({'name': 'other', 'type': None})
                        want_funcs, want_fields = set(), set()
                        for t in own:
                            want_funcs.add('is_' + t['name'])
                            if t['type'] is None:
                                want_fields.add(t['name'])
                            else:
                                want_funcs |= {t['name'], 'get_' + t['name']}
                        got_funcs = set(funcs) - {'_process_custom_annotations'}
                        if got_funcs != want_funcs or set(fields) != want_fields:
                            viol('tag-helpers', '%s.%s declares helpers %s / void tags %s, expected %s / %s' % (
                                ns, name, sorted(got_funcs), sorted(fields), sorted(want_funcs), sorted(want_fields)),
                                'missing' if (want_funcs - got_funcs or want_fields - set(fields)) else 'extra')
                        for t in own:
                            if t['type'] is None:
                                if t['name'] in fields:
                                    check_ann(ast.unparse(fields[t['name']].annotation), '%s.%s.%s' % (ns, name, t['name']), name, 'void-tag')
                            else:
                                pt = py_type(idx, ns, t['type'])
                                cr = funcs.get(t['name'])
                                if cr is not None:
                                    if not any(ast.unparse(x) == 'classmethod' for x in cr.decorator_list):
                                        viol('creator-not-classmethod', '%s.%s.%s' % (ns, name, t['name']))
                                    if len(cr.args.args) == 2 and cr.args.args[1].annotation is not None:
                                        check_ann(ast.unparse(cr.args.args[1].annotation), '%s.%s.%s(val)' % (ns, name, t['name']), pt, 'creator')
                                    if cr.returns is not None:
                                        check_ann(ast.unparse(cr.returns), '%s.%s.%s() result' % (ns, name, t['name']), name, 'creator-result')
                                ge = funcs.get('get_' + t['name'])
                                if ge is not None and ge.returns is not None:
                                    check_ann(ast.unparse(ge.returns), '%s.%s.get_%s()' % (ns, name, t['name']), pt, 'getter')
                            for helper in (['is_' + t['name']] + ([t['name'], 'get_' + t['name']] if t['type'] is not None else [t['name']])):
                                if rt is not None and not hasattr(rt, helper):
                                    viol('runtime-lacks-helper', '%s.%s.%s' % (ns, name, helper))
                    # runtime members the stub does not declare
                    if rt is not None:
                        pub = {k for k in vars(rt) if not k.startswith('_')}
                        missing = pub - set(fields) - set(funcs)
                        if missing:
                            viol('undeclared-runtime-member', '%s.%s defines %s at runtime, not in the stub' % (
                                ns, name, sorted(missing)), d['k'])
                elif d['k'] == 'alias':
                    exp_module_names.add(name + '_validator')
                    if stub.ann.get(name + '_validator') is None:
                        viol('missing-validator', 'stub of %s lacks %s_validator' % (ns, name), 'alias')
                    b = idx.unalias(('alias', ns, name))
                    has_rt = inspect.isclass(getattr(mod, name, None))
                    if b[0] == 'ref':
                        exp_module_names.add(name)
                    if has_rt != (name in stub.assign):
                        viol('alias-class-name', '%s.%s is %s at runtime but %s in the stub' % (
                            ns, name, 'a class alias' if has_rt else 'absent', 'declared' if name in stub.assign else 'absent'),
                            'missing' if has_rt else 'extra')
                    elif has_rt:
                        tgt = stub.assign[name]
                        want = ast.unparse(ast.parse(py_type(idx, ns, ('alias', ns, name)), mode='eval')) if False else None
                        for nm in root_names(ast.parse(tgt, mode='eval')):
                            if nm not in defined:
                                viol('unresolved-name', 'alias %s.%s = %s' % (ns, name, tgt), 'user-name')
                elif d['k'] == 'route':
                    rn = pyrt.route_attr_name(d['name'], d['version'])
                    exp_module_names.add(rn)
                    if stub.ann.get(rn) != 'bb.Route':
                        viol('route-object', 'stub of %s: %s is %r' % (ns, rn, stub.ann.get(rn)), 'missing' if rn not in stub.ann else 'type')
                    if not isinstance(getattr(mod, rn, None), bb.Route):
                        viol('runtime-lacks-route', '%s.%s' % (ns, rn))
                elif d['k'] == 'annotation_type':
                    exp_module_names.add(name)
                    if name not in stub.classes:
                        viol('missing-class', 'stub of %s lacks annotation type %s' % (ns, name), 'annotation_type')
            declared = (set(stub.classes) | set(stub.ann) | set(stub.assign)) - {'T', 'U'}
            if declared != exp_module_names:
                viol('module-names', 'stub of %s declares %s, expected %s' % (
                    ns, sorted(declared - exp_module_names), sorted(exp_module_names - declared)),
                    'extra' if declared - exp_module_names else 'missing')
            # every annotation anywhere in the stub resolves
            for node in ast.walk(stub.tree):
                anns = []
                if isinstance(node, ast.AnnAssign):
                    anns.append(node.annotation)
                elif isinstance(node, ast.FunctionDef):
                    anns += [a.annotation for a in node.args.args if a.annotation is not None]
                    if node.returns is not None:
                        anns.append(node.returns)
                for a in anns:
                    for name in root_names(a):
                        if name not in defined and name not in ('T', 'U'):
                            viol('unresolved-name', 'stub of %s uses %s (%s) which is neither imported nor defined' % (
                                ns, name, ast.unparse(a)),
                                name_kind(name))
    finally:
        pkg.close()


@st.composite
def cases(draw):
    return {'api': draw(gen.api_models(gen.Cfg(**C15_CFG)))}


def parts(ctx):
    return [Part('stubs', run, strategy=cases(), n=ctx.n(700, 8000), budget_s=ctx.n(150, 3000))]
