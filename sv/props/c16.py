"""C16 - JavaScript and TypeScript output is well formed and covers the whole API.

Every expectation below is computed from the plain-data model (sv.model.Index); stone is only
*run*.  Type expressions whose mapping is fixed neither by the backends' documented tables nor
by a pinned test (a Nullable or an alias nested in a JSDoc container, a Nullable nested in a
TypeScript container, a nullable union tag in TypeScript, an enumerated-subtypes root inside a
list / map / alias target) are UNSPEC: their text is not judged, but every name they mention
must still resolve.
"""
import collections
import json
import os
import re
import shutil
import subprocess
import tempfile

from hypothesis import strategies as st

from .. import core, gen, render, backends, front, model as M, VERIF_DIR
from ..core import Part
from .c09 import tb_text_sig

RULE = ('generated specs (1-4 namespaces, cross-namespace references / parents, enumerated subtypes, alias '
        'chains, route versions, route schema "plain" | "generic" (every literal kind incl. union-typed attrs) | '
        '"client") run through every configured js_client / js_types / tsd_types / tsd_client option set (single '
        'file, file per namespace with and without module prefix, export-namespaces, import-namespaces, wrap '
        'response / error, request-options, attribute comments). js: import() under node (= node --check, '
        're-confirmed) and a harness that calls every routes.<fn> with a recording request(); JSDoc typedef '
        'scanner; TypeScript: tokenizer + recursive-descent parser for the emitted .d.ts subset, per-namespace '
        'declaration tables, name resolution through namespaces / imports / companion types file. non-trivial = '
        'spec with a cross-namespace reference, a subtype tree or an alias of an alias; distinct by (spec, option set).')
ASSUMPTIONS = ['No tsc in the sandbox: TypeScript well-formedness is decided by an own parser for the subset of '
               'declaration syntax the backends emit, plus name resolution; type checking is out of reach.',
               'Identifiers follow the documented conventions (snake_case members, PascalCase types); specs whose '
               'names collide only after the backends\' mangling (files+TeamInfo vs files_team+Info) are not judged '
               'on the colliding names.',
               'A js_client / tsd_client output is resolved against the js_types / tsd_types output of the same spec '
               '(the companion file real callers ship with it); wrapper class names given on the command line '
               '(Resp, Err) count as supplied by the template.',
               'JavaScript numbers are doubles: integer attribute values are compared as doubles.']

C16_CFG = dict(omitted=True, max_ns=4, max_types=6, max_routes=4, examples=False)
HARNESS = os.path.join(VERIF_DIR, 'sv', 'js', 'c16_harness.mjs')

JS_CLIENT = ['js_client', 'js_client_opts', 'js_client_reqopts', 'js_client_attrs']
JS_TYPES = ['js_types']
TSD_TYPES = ['tsd_types', 'tsd_types_export', 'tsd_types_per_ns', 'tsd_types_per_ns_prefix']
TSD_CLIENT = ['tsd_client', 'tsd_client_imports', 'tsd_client_attrs']
ORDER = JS_TYPES + JS_CLIENT + TSD_TYPES + TSD_CLIENT


def opt(name, flag, default=None):
    """Value following `flag` in the configured argument list (True for a bare switch)."""
    args = backends.CONFIGS[name][1]
    if flag not in args:
        return default
    i = args.index(flag)
    if i + 1 < len(args) and not args[i + 1].startswith('-'):
        return args[i + 1]
    return True


def has(name, flag):
    return flag in backends.CONFIGS[name][1]


# ---------------------------------------------------------------------------------------
# model side: names, shapes, expected type texts

def pascal(s):
    """snake_case (or a/b) -> PascalCase, the documented mangling of tag and namespace names."""
    return ''.join(w.capitalize() for w in re.split(r'[_/]+', s) if w)


def shape(idx, t, here=None):
    """Coarse, identifier-free description of a model type expression (for signatures)."""
    if t is None:
        return 'Void'
    k = t[0]
    if k == 'prim':
        n = t[1]
        return 'Int' if n in M.INTS else 'Float' if n in M.FLOATS else n
    if k == 'nullable':
        return 'Nullable(%s)' % shape(idx, t[1], here)
    if k == 'list':
        return 'List(%s)' % shape(idx, t[1], here)
    if k == 'map':
        return 'Map(%s)' % shape(idx, t[2], here)
    far = '@other-ns' if here is not None and t[1] != here else ''
    if k == 'alias':
        return 'Alias' + far
    d = idx.get(t[1], t[2])
    if d['k'] == 'union':
        return 'Union' + far
    return ('EnumRoot' if d.get('subtypes') else 'Struct') + far


def coarse(idx, t, here=None):
    """Outermost constructor of a model type (+ marker when it mentions another namespace)."""
    if t is None:
        return 'Void'
    k = t[0]
    far = '@other-ns' if here is not None and any(s[1] != here for s in refs_in(t)) else ''
    if k == 'prim':
        return 'Void' if t[1] == 'Void' else 'Primitive'
    if k in ('nullable', 'list', 'map'):
        return {'nullable': 'Nullable', 'list': 'List', 'map': 'Map'}[k] + far
    return shape(idx, t, here)


def is_enum_root(idx, t):
    if t[0] != 'ref':
        return False
    d = idx.get(t[1], t[2])
    return d['k'] == 'struct' and bool(d.get('subtypes'))


def in_enum_tree(idx, ns, d):
    if d['k'] != 'struct':
        return False
    return bool(d.get('subtypes')) or idx.subtree_tag(ns, d) is not None


def union_text(parts, paren=False):
    parts = sorted(parts)
    if len(parts) == 1:
        return parts[0]
    s = '|'.join(parts)
    return '(%s)' % s if paren else s


TS_PRIM = {'Boolean': 'boolean', 'Bytes': 'string', 'String': 'string', 'Timestamp': 'Timestamp', 'Void': 'void'}


def prim_text(t):
    return TS_PRIM.get(t[1], 'number')


def ts_qual(ns, name, inside):
    return name if ns == inside else '%s.%s' % (ns, name)


def ts_alts(idx, t, inside, strict_root=False):
    """Acceptable canonical TypeScript texts for model type `t` referenced from namespace
    `inside` (None = always qualified), or None when the mapping is unspecified."""
    k = t[0]
    if k == 'prim':
        return {prim_text(t)}
    if k == 'nullable':
        return None
    if k == 'alias':
        return {ts_qual(t[1], t[2], inside)}
    if k == 'ref':
        plain = ts_qual(t[1], t[2], inside)
        if is_enum_root(idx, t):
            d = idx.get(t[1], t[2])
            refs = [ts_qual(t[1], kid, inside) + 'Reference' for _, kid in d['subtypes']['items']]
            if not d['subtypes']['closed']:
                refs.append(plain + 'Reference')
            u = union_text(refs)
            # test_tsd_types pins the Reference union for a direct field / tag and the plain name
            # for a map value; list elements and alias targets are pinned nowhere
            return {u} if strict_root else {u, plain}
        return {plain}
    if k == 'list':
        inner = ts_alts(idx, t[1], inside)
        return None if inner is None else {'Array<%s>' % x for x in inner}
    if k == 'map':
        inner = ts_alts(idx, t[2], inside)
        return None if inner is None else {'{[key: string]: %s}' % x for x in inner}
    raise AssertionError(t)


def js_name(ns, name):
    return pascal(ns) + name


def js_alts(idx, t, top=True):
    """Acceptable canonical JSDoc texts; at the top of a field / tag aliases and nullability are
    stripped (the documented behaviour of stone.ir.unwrap), inside containers they are UNSPEC."""
    if top:
        t = idx.base(t)
    k = t[0]
    if k == 'prim':
        return {prim_text(t)}
    if k in ('nullable', 'alias'):
        return None
    if k == 'ref':
        if is_enum_root(idx, t):
            d = idx.get(t[1], t[2])
            names = [js_name(t[1], kid) for _, kid in d['subtypes']['items']]
            if not d['subtypes']['closed']:
                names.append(js_name(t[1], t[2]))
            u = union_text(names, paren=True)
            return {u} if top else {u, js_name(t[1], t[2])}
        return {js_name(t[1], t[2])}
    if k == 'list':
        inner = js_alts(idx, t[1], top=False)
        return None if inner is None else {'Array.<%s>' % x for x in inner}
    if k == 'map':
        return {'Object'}
    raise AssertionError(t)


def refs_in(t):
    return [s for s in M.walk_types(t) if s[0] in ('ref', 'alias')]


def route_key(ns, r):
    return M.canon(ns) + M.canon(r['name']) + ('v%d' % r['version'] if r['version'] != 1 else '')


def route_url(ns, r):
    return '%s/%s' % (ns, r['name']) + ('_v%d' % r['version'] if r['version'] != 1 else '')


def attr_expect(api, idx, r, ir_attrs=None):
    """[(schema field, kind, python value | UNSPEC)] in schema order.  `ir_attrs` (the attrs the
    frontend attached to the route) is only a guard: where the frontend itself did not keep the
    literal of the spec (C02's business, e.g. a trailing newline escape is dropped by the lexer)
    the position is not judged here."""
    out = []
    sch = api.get('schema')
    for f in (sch['fields'] if sch else []):
        v = r['attrs'].get(f['name'])
        if v is None:
            v = f.get('default') or ('lit', None)
        b = idx.base(f['type'])
        guarded = v[0] == 'lit' and ir_attrs is not None and isinstance(v[1], (str, int)) and \
            b[0] == 'prim' and b[1] in M.INTS + ('String', 'Boolean')
        if guarded and (f['name'] not in ir_attrs or type(ir_attrs[f['name']]) is not type(v[1])
                        or ir_attrs[f['name']] != v[1]):
            out.append((f, 'frontend-changed-the-literal', UNSPEC))
        elif v[1] is None:
            out.append((f, 'null', None))
        elif v[0] == 'tag':
            out.append((f, 'union-tag', UNSPEC))
        elif b[0] == 'prim' and b[1] in ('Bytes', 'Timestamp'):
            out.append((f, b[1], UNSPEC))
        else:
            out.append((f, shape(idx, b), v[1]))
    return out


class _Unspec:
    def __repr__(self):
        return 'UNSPEC'


UNSPEC = _Unspec()


# ---------------------------------------------------------------------------------------
# JSDoc scanner

def jsdoc_blocks(text):
    """-> [(end offset, [(tag, rest)])] for every /** ... */ block; an entry is the text from
    one line-initial @tag to the next (wrapped continuation lines joined by blanks)."""
    out = []
    for m in re.finditer(r'/\*\*(.*?)\*/', text, re.S):
        entries = []
        for line in m.group(1).split('\n'):
            s = line.strip()
            if s.startswith('*'):
                s = s[1:].strip()
            if s.startswith('@'):
                mm = re.match(r'@(\w+)\s*(.*)', s, re.S)
                entries.append([mm.group(1), mm.group(2)])
            elif entries:
                entries[-1][1] += ' ' + s
        out.append((m.end(), entries))
    return out


def braced(s):
    """'{...} rest' -> (inside, rest) with brace matching, or (None, s)."""
    s = s.lstrip()
    if not s.startswith('{'):
        return None, s
    depth = 0
    for i, c in enumerate(s):
        if c == '{':
            depth += 1
        elif c == '}':
            depth -= 1
            if depth == 0:
                return s[1:i], s[i + 1:]
    return None, s


def js_canon(ty):
    ty = re.sub(r'\s+', '', ty)
    return re.sub(r'\(([^()]*)\)', lambda m: union_text(m.group(1).split('|'), paren=True), ty)


def js_idents(ty):
    ty = re.sub(r'\'[^\']*\'|"[^"]*"', '', ty)
    return re.findall(r'[A-Za-z_$][\w$]*', ty)


JS_BUILTIN = {'Object', 'Array', 'string', 'number', 'boolean', 'void', 'Promise', 'null', 'undefined'}


def scan_js_types(text):
    """-> {typedef name: [ {'base': type, 'props': [(type, name, optional)]} ... ]}"""
    out = collections.OrderedDict()
    for _, entries in jsdoc_blocks(text):
        cur = None
        for tag, rest in entries:
            if tag == 'typedef':
                ty, rest2 = braced(rest)
                name = rest2.split()[0] if rest2.split() else ''
                cur = {'base': ty, 'props': [], 'template': []}
                out.setdefault(name, []).append(cur)
            elif tag == 'property' and cur is not None:
                ty, rest2 = braced(rest)
                tok = rest2.split()[0] if rest2.split() else ''
                optional = tok.startswith('[') and tok.endswith(']')
                cur['props'].append((ty, tok[1:-1] if optional else tok, optional))
            elif tag == 'template' and cur is not None:
                cur['template'] += rest.split()
    return out


# ---------------------------------------------------------------------------------------
# TypeScript declaration scanner (the subset of .d.ts syntax the backends emit)

class TsError(Exception):
    def __init__(self, kind, msg):
        super().__init__(msg)
        self.kind = kind
        self.msg = msg


TOK = re.compile(r'''(?P<ws>\s+)|(?P<lc>//[^\n]*)|(?P<bc>/\*.*?\*/)
    |(?P<str>'(?:[^'\\\n]|\\.)*'|"(?:[^"\\\n]|\\.)*")
    |(?P<id>[A-Za-z_$][A-Za-z0-9_$]*)
    |(?P<p>[{}\[\]()<>|:;,.?=*])''', re.X | re.S)


def ts_tokens(text):
    pos, out = 0, []
    while pos < len(text):
        m = TOK.match(text, pos)
        if not m:
            c = text[pos]
            what = 'unterminated-comment' if text.startswith('/*', pos) else \
                'unterminated-string' if c in '\'"' else 'stray-character'
            raise TsError(what, 'at offset %d: %r' % (pos, text[pos:pos + 40]))
        pos = m.end()
        if m.lastgroup not in ('ws', 'lc', 'bc'):
            out.append((m.lastgroup, m.group()))
    return out


def tok_class(tok):
    return {'id': 'identifier', 'str': 'string', 'eof': 'end-of-file'}.get(tok[0]) or 'punct %s' % tok[1]


def ts_fmt(a):
    k = a[0]
    if k == 'str':
        return "'%s'" % a[1]
    if k == 'name':
        return a[1] + ('<%s>' % ', '.join(ts_fmt(x) for x in a[2]) if a[2] else '')
    if k == 'union':
        return '|'.join(sorted(ts_fmt(x) for x in a[1]))
    if k == 'index':
        return '{[%s: %s]: %s}' % (a[1], ts_fmt(a[2]), ts_fmt(a[3]))
    if k == 'array':
        return ts_fmt(a[1]) + '[]'
    raise AssertionError(a)


def ts_names(a, path='direct'):
    """(dotted name, path) for every type name in a type AST."""
    k = a[0]
    if k == 'name':
        yield a[1], path
        for x in a[2]:
            yield from ts_names(x, 'in-' + a[1].split('.')[-1] if a[1] in ('Array', 'Promise') else 'in-generic')
    elif k == 'union':
        for x in a[1]:
            yield from ts_names(x, path if path != 'direct' else 'in-union')
    elif k == 'index':
        yield from ts_names(a[2], 'in-index-key')
        yield from ts_names(a[3], 'in-index-value')
    elif k == 'array':
        yield from ts_names(a[1], 'in-array')


class TsParser:
    def __init__(self, text):
        self.t = ts_tokens(text)
        self.i = 0

    def peek(self, k=0):
        return self.t[self.i + k] if self.i + k < len(self.t) else ('eof', '')

    def next(self):
        tok = self.peek()
        self.i += 1
        return tok

    def at(self, val):
        tok = self.peek()
        return tok[0] != 'str' and tok[1] == val

    def accept(self, val):
        if self.at(val):
            self.i += 1
            return True
        return False

    def expect(self, val, ctx):
        if not self.accept(val):
            raise TsError('expected %r in %s, found %s' % (val, ctx, tok_class(self.peek())),
                          'token #%d %r' % (self.i, self.peek()[1]))

    def ident(self, ctx):
        tok = self.next()
        if tok[0] != 'id':
            raise TsError('expected identifier in %s, found %s' % (ctx, tok_class(tok)), 'token #%d %r' % (self.i, tok[1]))
        return tok[1]

    def string(self, ctx):
        tok = self.next()
        if tok[0] != 'str':
            raise TsError('expected string in %s, found %s' % (ctx, tok_class(tok)), 'token #%d %r' % (self.i, tok[1]))
        return tok[1][1:-1]

    # -- types -------------------------------------------------------------------------------
    def type(self):
        self.accept('|')
        parts = [self.postfix()]
        while self.accept('|'):
            parts.append(self.postfix())
        return parts[0] if len(parts) == 1 else ('union', parts)

    def postfix(self):
        a = self.primary()
        while self.at('[') and self.peek(1)[1] == ']':
            self.i += 2
            a = ('array', a)
        return a

    def primary(self):
        tok = self.peek()
        if tok[0] == 'str':
            self.i += 1
            return ('str', tok[1][1:-1])
        if self.accept('('):
            a = self.type()
            self.expect(')', 'parenthesised type')
            return a
        if self.accept('{'):
            self.expect('[', 'index signature')
            key = self.ident('index signature')
            self.expect(':', 'index signature')
            kt = self.type()
            self.expect(']', 'index signature')
            self.expect(':', 'index signature')
            vt = self.type()
            self.accept(';')
            self.expect('}', 'index signature')
            return ('index', key, kt, vt)
        if tok[0] == 'id':
            name = self.ident('type')
            while self.accept('.'):
                name += '.' + self.ident('qualified name')
            args = []
            if self.accept('<'):
                args.append(self.type())
                while self.accept(','):
                    args.append(self.type())
                self.expect('>', 'type arguments')
            return ('name', name, args)
        raise TsError('expected a type, found %s' % tok_class(tok), 'token #%d %r' % (self.i, tok[1]))

    # -- declarations ------------------------------------------------------------------------
    def interface(self, mods):
        self.expect('interface', 'interface')
        d = {'kind': 'interface', 'name': self.ident('interface name'), 'params': [], 'extends': [],
             'members': [], 'export': 'export' in mods}
        if self.accept('<'):
            d['params'].append(self.ident('type parameters'))
            while self.accept(','):
                d['params'].append(self.ident('type parameters'))
            self.expect('>', 'type parameters')
        if self.accept('extends'):
            d['extends'].append(self.type())
            while self.accept(','):
                d['extends'].append(self.type())
        self.expect('{', 'interface body')
        while not self.accept('}'):
            tok = self.next()
            if tok[0] not in ('id', 'str'):
                raise TsError('expected member name in interface body, found %s' % tok_class(tok),
                              'token #%d %r' % (self.i, tok[1]))
            name = tok[1][1:-1] if tok[0] == 'str' else tok[1]
            optional = self.accept('?')
            self.expect(':', 'interface member')
            ty = self.type()
            self.expect(';', 'interface member')
            d['members'].append((name, optional, ty))
        return d

    def typealias(self, mods):
        self.expect('type', 'type alias')
        d = {'kind': 'type', 'name': self.ident('type alias name'), 'export': 'export' in mods}
        self.expect('=', 'type alias')
        d['type'] = self.type()
        self.expect(';', 'type alias')
        return d

    def klass(self):
        self.expect('class', 'class')
        c = {'name': self.ident('class name'), 'methods': []}
        self.expect('{', 'class body')
        while not self.accept('}'):
            self.accept('public')
            m = {'name': self.ident('method name'), 'params': []}
            self.expect('(', 'method parameters')
            while not self.accept(')'):
                pname = self.ident('method parameters')
                popt = self.accept('?')
                self.expect(':', 'method parameter')
                m['params'].append((pname, popt, self.type()))
                if not self.at(')'):
                    self.expect(',', 'method parameters')
            self.expect(':', 'method result')
            m['ret'] = self.type()
            self.expect(';', 'method')
            c['methods'].append(m)
        return c

    def file(self):
        f = {'star': {}, 'named': {}, 'top': [], 'spaces': [], 'classes': []}
        while self.peek()[0] != 'eof':
            if self.accept('import'):
                if self.accept('*'):
                    self.expect('as', 'import')
                    name = self.ident('import')
                    self.expect('from', 'import')
                    f['star'][name] = self.string('import')
                else:
                    self.expect('{', 'import')
                    names = []
                    while not self.accept('}'):
                        names.append(self.ident('import list'))
                        if not self.at('}'):
                            self.expect(',', 'import list')
                    self.expect('from', 'import')
                    src = self.string('import')
                    for n in names:
                        f['named'][n] = src
                self.expect(';', 'import')
                continue
            mods = set()
            while self.peek()[1] in ('export', 'declare') and self.peek()[0] == 'id':
                mods.add(self.next()[1])
            if self.at('namespace') or self.at('module'):
                kind = self.next()[1]
                name = self.ident('namespace') if kind == 'namespace' else self.string('module')
                sp = {'kind': kind, 'name': name, 'export': 'export' in mods, 'declare': 'declare' in mods, 'decls': []}
                self.expect('{', kind)
                while not self.accept('}'):
                    m2 = set()
                    while self.peek()[1] in ('export', 'declare') and self.peek()[0] == 'id':
                        m2.add(self.next()[1])
                    if self.at('interface'):
                        sp['decls'].append(self.interface(m2))
                    elif self.at('type'):
                        sp['decls'].append(self.typealias(m2))
                    else:
                        raise TsError('expected a declaration in %s body, found %s' % (kind, tok_class(self.peek())),
                                      'token #%d %r' % (self.i, self.peek()[1]))
                f['spaces'].append(sp)
            elif self.at('interface'):
                f['top'].append(self.interface(mods))
            elif self.at('type'):
                f['top'].append(self.typealias(mods))
            elif self.at('class'):
                f['classes'].append(self.klass())
            else:
                raise TsError('expected a top-level declaration, found %s' % tok_class(self.peek()),
                              'token #%d %r' % (self.i, self.peek()[1]))
        return f


IMPORT_REASONS = ('qualifier is neither a namespace of this file nor imported',
                  'qualifier imported from a module that is not generated')
TS_BUILTIN = {'string', 'number', 'boolean', 'void', 'Object', 'Array', 'Promise', 'any', 'null', 'undefined'}


def decl_types(d):
    """(site kind, type AST) for every type expression of a declaration."""
    if d['kind'] == 'type':
        yield 'type-alias', d['type']
    else:
        for e in d['extends']:
            yield 'extends', e
        for _, _, ty in d['members']:
            yield 'member', ty


# ---------------------------------------------------------------------------------------
# the check

class Judge:
    def __init__(self, case, rec, specs, ir=None):
        self.case, self.rec, self.specs = case, rec, specs
        self.api = case['api']
        self.idx = M.Index(self.api)
        self.ir_attrs = {}
        if ir is not None:
            for nsname, ns in ir.namespaces.items():
                for r in ns.routes:
                    self.ir_attrs[(nsname, r.name, r.version)] = dict(r.attrs)

    def viol(self, kind, what, *detail):
        sig = 'C16|%s|%s' % (kind, '|'.join(str(x) for x in detail))
        self.rec.violation(sig, what, case=self.case, human=self.specs)

    def note(self, name):
        self.rec.note(name)

    # -- js_types ------------------------------------------------------------------------------
    def js_types(self, cfg, text):
        idx = self.idx
        tds = scan_js_types(text)
        predicted = collections.Counter(js_name(n, d['name']) for n, d in idx.types())
        declared = set(tds) | JS_BUILTIN
        for n, d in idx.types():
            name = js_name(n, d['name'])
            k = d['k']
            where = '%s.%s (JSDoc %s)' % (n, d['name'], name)
            if predicted[name] > 1:
                self.note('unjudged:jsdoc-name-collision-after-mangling')
                continue
            got = tds.get(name, [])
            if len(got) != 1:
                self.viol('jsdoc', '%s is typedef\'d %d times in js_types output' % (where, len(got)),
                          'typedef-count', k, 'missing' if not got else 'more-than-once')
                if not got:
                    continue
            td = got[0]
            props = collections.OrderedDict()
            for ty, pname, optional in td['props']:
                props.setdefault(pname, []).append((ty, optional))
            if k == 'struct':
                want = idx.struct_all_fields(n, d)
                wnames = [f['name'] for _, _, f in want]
                for _, owner, f in want:
                    inh = 'inherited' if owner is not d else 'own'
                    ps = props.get(f['name'], [])
                    if len(ps) != 1:
                        self.viol('jsdoc', '%s: field %s is listed %d times' % (where, f['name'], len(ps)),
                                  'field-count', inh, 'missing' if not ps else 'more-than-once')
                        if not ps:
                            continue
                    ty, optional = ps[0]
                    nullable = idx.is_nullable(f['type'])
                    if optional != nullable:
                        self.viol('jsdoc', '%s: field %s is %s but written %s' % (
                            where, f['name'], 'nullable' if nullable else 'not nullable%s' % (
                                ' (defaulted)' if f.get('default') is not None else ''),
                            '[optional]' if optional else 'required'),
                            'optional-flag', ('nullable-through-alias' if f['type'][0] == 'alias' else 'nullable') if nullable else
                            ('defaulted' if f.get('default') is not None else 'required'))
                    self.js_type_text(ty, f['type'], n, where + ' field ' + f['name'], 'field')
                extra = [p for p in props if p not in wnames and p != '.tag']
                if extra:
                    self.viol('jsdoc', '%s lists properties %s that the struct does not have' % (where, extra),
                              'field-extra', 'struct')
            else:
                tags = idx.union_all_tags(n, d)
                wnames = [t['name'] for _, _, t in tags]
                tagp = props.get('.tag', [])
                if len(tagp) != 1:
                    self.viol('jsdoc', '%s has %d .tag properties' % (where, len(tagp)), 'tag-list', 'count')
                else:
                    lits = re.findall(r'\'([^\']*)\'|"([^"]*)"', tagp[0][0] or '')
                    gotn = [a or b for a, b in lits]
                    if sorted(gotn) != sorted(wnames):
                        self.viol('jsdoc', '%s: .tag lists %s, the union has %s' % (where, gotn, wnames), 'tag-list',
                                  'missing' if set(wnames) - set(gotn) else 'extra-or-repeated',
                                  'inherited' if any(u is not d for _, u, t in tags if t['name'] in set(wnames) - set(gotn)) else 'own')
                for _, owner, t in tags:
                    ps = props.get(t['name'], [])
                    if t['type'] is None:
                        if ps:
                            self.viol('jsdoc', '%s: void tag %s has a value property' % (where, t['name']), 'void-tag-property')
                        continue
                    if len(ps) != 1:
                        self.viol('jsdoc', '%s: tag %s has %d value properties' % (where, t['name'], len(ps)),
                                  'tag-property-count', 'inherited' if owner is not d else 'own',
                                  'missing' if not ps else 'more-than-once')
                        if not ps:
                            continue
                    self.js_type_text(ps[0][0], t['type'], n, where + ' tag ' + t['name'], 'tag')
                extra = [p for p in props if p not in wnames and p != '.tag']
                if extra:
                    self.viol('jsdoc', '%s lists properties %s that are not tags' % (where, extra), 'field-extra', 'union')
        # every referenced name resolves
        for name, lst in tds.items():
            for td in lst:
                local = declared | set(td['template'])
                for ty, pname, _ in [(td['base'], '<typedef>', False)] + td['props']:
                    for ident in js_idents(ty or ''):
                        if ident not in local:
                            self.viol('unresolved-name', 'js_types: typedef %s property %s has type {%s}; %s is not '
                                      'typedef\'d anywhere' % (name, pname, ty, ident), 'js_types',
                                      'container' if re.search(r'[<(]', ty) else 'direct')
        return tds

    def js_type_text(self, got, t, ns, where, site):
        alts = js_alts(self.idx, t)
        if alts is None:
            self.note('unspec:jsdoc-type')
            return
        if got is None or js_canon(got) not in alts:
            self.viol('jsdoc', '%s has JSDoc type {%s}, expected %s' % (where, got, ' or '.join(sorted(alts))),
                      'type', site, coarse(self.idx, t, ns))

    # -- js_client -----------------------------------------------------------------------------
    def js_client(self, cfg, text, res, tds):
        idx, api = self.idx, self.api
        want_opts = has(cfg, '--request-options')
        routes = [(n, r) for n, r in idx.routes()]
        keys = collections.Counter(route_key(n, r) for n, r in routes)
        urls = collections.Counter(route_url(n, r) for n, r in routes)
        defs = re.findall(r'^\s*routes\.([A-Za-z_$][\w$]*)\s*=\s*function', text, re.M)
        collide = any(c > 1 for c in keys.values()) or any(c > 1 for c in urls.values())
        if collide:
            self.note('unjudged:route-name-collision-after-mangling')
        elif len(defs) != len(routes) or len(set(defs)) != len(defs):
            self.viol('js-client', '%d routes.<fn> definitions (%d distinct) for %d route versions' % (
                len(defs), len(set(defs)), len(routes)), 'function-count',
                'fewer' if len(set(defs)) < len(routes) else 'more')
        if res['error'] is not None or res['routes'] is None:
            return       # reported by the caller (syntax / load error)
        by_url = collections.defaultdict(list)
        for fn in res['routes']:
            if fn['type'] != 'function':
                self.viol('js-client', 'routes.%s is a %s' % (fn['name'], fn['type']), 'not-a-function')
                continue
            if fn['threw'] is not None:
                self.viol('js-client', 'routes.%s threw %s: %s' % (fn['name'], fn['threw']['name'], fn['threw']['message']),
                          'function-threw', fn['threw']['name'])
                continue
            if len(fn['calls']) != 1:
                self.viol('js-client', 'routes.%s called request() %d times' % (fn['name'], len(fn['calls'])),
                          'request-count', 'none' if not fn['calls'] else 'many')
                continue
            call = fn['calls'][0]
            if not call['thisOk']:
                self.viol('js-client', 'routes.%s does not call request on `this`' % fn['name'], 'request-this')
            a0 = call['args'][0] if call['args'] else {'t': 'undef'}
            if a0['t'] != 'str':
                self.viol('js-client', 'routes.%s: first request argument is %r' % (fn['name'], a0), 'url-not-a-string')
                continue
            by_url[a0['v']].append((fn, call))
        if collide:
            return
        want_urls = set(urls)
        for u in sorted(set(by_url) - want_urls):
            self.viol('js-client', 'routes.%s requests %r, which is no route of the spec (expected one of %s)' % (
                by_url[u][0][0]['name'], u, sorted(want_urls - set(by_url))), 'url-unexpected',
                'drops-version-suffix' if any(w.startswith(u + '_v') for w in want_urls) else 'other')
        for n, r in routes:
            u = route_url(n, r)
            hits = by_url.get(u, [])
            vclass = 'version-1' if r['version'] == 1 else 'later-version'
            if len(hits) != 1:
                self.viol('js-client', 'route %s.%s:%d: %d functions request %r' % (n, r['name'], r['version'], len(hits), u),
                          'url-function-count', vclass, 'none' if not hits else 'several')
                if not hits:
                    continue
            fn, call = hits[0]
            where = 'routes.%s (%s.%s:%d)' % (fn['name'], n, r['name'], r['version'])
            if M.canon(fn['name']) != route_key(n, r):
                self.viol('js-client', '%s is not named after namespace, route and version' % where, 'function-name', vclass)
            has_arg = r['arg'] != M.VOID
            args = call['args'][1:]
            exp = attr_expect(api, idx, r, self.ir_attrs.get((n, r['name'], r['version'])))
            n_exp = 1 + len(exp) + (1 if want_opts else 0)
            if fn['length'] != (1 if has_arg else 0) + (1 if want_opts else 0):
                self.viol('js-client', '%s declares %d parameters' % (where, fn['length']), 'function-arity',
                          'arg' if has_arg else 'void-arg', 'request-options' if want_opts else 'plain')
            if len(args) != n_exp:
                self.viol('js-client', '%s passes %d arguments after the url, expected %d (arg, %d attributes%s)' % (
                    where, len(args), n_exp, len(exp), ', options' if want_opts else ''), 'request-arg-count',
                    'fewer' if len(args) < n_exp else 'more')
                continue
            first = args[0]
            if has_arg and not (first['t'] == 'sent' and first['i'] == 0):
                self.viol('js-client', '%s does not pass its argument: %r' % (where, first), 'first-arg', 'arg')
            if not has_arg and first['t'] != 'null':
                self.viol('js-client', '%s passes %r for a Void argument, expected null' % (where, first), 'first-arg', 'void-arg')
            if want_opts:
                last = args[-1]
                if not (last['t'] == 'sent' and last['i'] == (1 if has_arg else 0)):
                    self.viol('js-client', '%s does not forward its options parameter: %r' % (where, last), 'options-arg',
                              'arg' if has_arg else 'void-arg')
            got = args[1:1 + len(exp)]
            bad = [(f, kind, e, g) for (f, kind, e), g in zip(exp, got) if e is not UNSPEC and not js_value_eq(e, g)]
            for f, kind, e in exp:
                if e is UNSPEC:
                    self.note('unspec:js-attr-value:' + kind)
            if bad:
                pool = [repr(js_got(g)) for g in got]
                moved = True
                for _, _, e in exp:
                    if e is UNSPEC:
                        continue
                    if repr(js_norm(e)) in pool:
                        pool.remove(repr(js_norm(e)))
                    else:
                        moved = False
                if moved:
                    self.viol('js-client', '%s passes the attribute values %s, schema order is %s' % (
                        where, [g.get('v') for g in got], [(f['name'], e) for f, _, e in exp]), 'attr-order')
                else:
                    for f, kind, e, g in bad:
                        self.viol('js-client', '%s: attribute %s is %r in the spec, the function passes %r' % (
                            where, f['name'], e, g), 'attr-value', kind + string_class(e))
        # JSDoc of the client resolves against the companion js_types output
        if tds is not None:
            known = set(tds) | JS_BUILTIN | {'Error'}
            for w in (opt(cfg, '--wrap-response-in'), opt(cfg, '--wrap-error-in')):
                if w:
                    known.add(w)
            for _, entries in jsdoc_blocks(text):
                for tag, rest in entries:
                    if tag in ('arg', 'param', 'returns', 'return'):
                        ty, _r = braced(rest)
                        for ident in js_idents(ty or ''):
                            if ident not in known:
                                self.viol('unresolved-name', 'js_client: @%s {%s} mentions %s, which js_types does not '
                                          'typedef' % (tag, ty, ident), 'js_client', tag)

    # -- tsd_types -----------------------------------------------------------------------------
    def parse_ts(self, cfg, files):
        """{path: parsed file}; None for a file that is not well formed (reported)."""
        out = {}
        for path, data in sorted(files.items()):
            try:
                text = data.decode('utf-8')
                out[path] = TsParser(text).file()
            except UnicodeDecodeError:
                self.viol('tsd-not-well-formed', '%s: %s is not UTF-8' % (cfg, path), backends.CONFIGS[cfg][0], 'not-utf8')
                out[path] = None
            except TsError as e:
                self.viol('tsd-not-well-formed', '%s: %s does not parse as a declaration file: %s (%s)' % (
                    cfg, path, e.kind, e.msg), backends.CONFIGS[cfg][0], e.kind)
                out[path] = None
        return out

    def ts_spaces(self, cfg, parsed):
        """namespace name -> (file, space) for a tsd_types output; reports missing / repeated ones."""
        split = len(backends.CONFIGS[cfg][1]) < 2 or backends.CONFIGS[cfg][1][1].startswith('-')
        prefix = opt(cfg, '-p', '') or ''
        mode = 'file-per-namespace' if split else 'single-file'
        found = collections.defaultdict(list)
        for path, f in parsed.items():
            if f is None:
                continue
            for sp in f['spaces']:
                found[(sp['kind'], sp['name'])].append((path, f, sp))
        out = {}
        for n in self.api['namespaces']:
            ns = n['name']
            has_types = any(d['k'] in ('struct', 'union', 'alias') for d in n['defs'])
            key = ('module', prefix + ns) if split else ('namespace', ns)
            hits = found.get(key, [])
            if not has_types:
                continue
            if any(f is None for f in parsed.values()) and not hits:
                continue      # lives in a file that did not parse
            if len(hits) != 1:
                self.viol('tsd-types', '%s: namespace %s is declared %d times' % (cfg, ns, len(hits)), mode,
                          'namespace-count', 'missing' if not hits else 'more-than-once')
                if not hits:
                    continue
            path, f, sp = hits[0]
            if split and path != ns + '.d.ts':
                self.viol('tsd-types', '%s: namespace %s is declared in %s' % (cfg, ns, path), mode, 'namespace-file')
            if not split and bool(has(cfg, '--export-namespaces')) != sp['export']:
                self.viol('tsd-types', '%s: namespace %s is %sexported' % (cfg, ns, '' if sp['export'] else 'not '), mode,
                          'namespace-export-flag')
            out[ns] = (path, f, sp)
        return out, mode, prefix

    def tsd_types(self, cfg, parsed):
        idx = self.idx
        spaces, mode, prefix = self.ts_spaces(cfg, parsed)
        mod_spaces = {}
        for path, f in parsed.items():
            for sp in (f['spaces'] if f else []):
                mod_spaces.setdefault((sp['kind'], sp['name']), sp)
        for n in self.api['namespaces']:
            ns = n['name']
            if ns not in spaces:
                continue
            path, f, sp = spaces[ns]
            decls = collections.defaultdict(list)
            for d in sp['decls']:
                decls[d['name']].append(d)
            predicted = collections.Counter()
            for d in n['defs']:
                if d['k'] == 'struct':
                    predicted[d['name']] += 1
                    if in_enum_tree(idx, ns, d):
                        predicted[d['name'] + 'Reference'] += 1
                elif d['k'] == 'union':
                    predicted[d['name']] += 1
                    for t in self.own_tags(ns, d):
                        predicted[d['name'] + pascal(t['name'])] += 1
                elif d['k'] == 'alias':
                    predicted[d['name']] += 1

            def one(name, kind, what, dkind):
                ds = decls.get(name, [])
                if predicted[name] > 1:
                    self.note('unjudged:ts-name-collision-after-mangling')
                    return None
                if len(ds) != 1:
                    self.viol('tsd-types', '%s: %s %s.%s is declared %d times' % (cfg, what, ns, name, len(ds)),
                              'declared-count', dkind, 'missing' if not ds else 'more-than-once')
                    if not ds:
                        return None
                if ds[0]['kind'] != kind:
                    self.viol('tsd-types', '%s: %s %s.%s is declared as %s' % (cfg, what, ns, name, ds[0]['kind']),
                              'declared-as', dkind)
                    return None
                return ds[0]

            for d in n['defs']:
                where = '%s: %s.%s' % (cfg, ns, d.get('name'))
                if d['k'] == 'struct':
                    it = one(d['name'], 'interface', 'struct', 'struct')
                    if it is not None:
                        want_ext = [ts_qual(d['parent'][0], d['parent'][1], ns)] if d.get('parent') else []
                        got_ext = [ts_fmt(e) for e in it['extends']]
                        if got_ext != want_ext:
                            self.viol('tsd-types', '%s extends %s, expected %s' % (where, got_ext, want_ext), 'struct-extends',
                                      'parent' + ('@other-ns' if d.get('parent') and d['parent'][0] != ns else '')
                                      if d.get('parent') else 'no-parent')
                        members = collections.defaultdict(list)
                        for mname, optional, ty in it['members']:
                            members[mname].append((optional, ty))
                        for fld in d['fields']:
                            ms = members.get(fld['name'], [])
                            if len(ms) != 1:
                                self.viol('tsd-types', '%s: field %s is declared %d times' % (where, fld['name'], len(ms)),
                                          'field-count', 'missing' if not ms else 'more-than-once')
                                if not ms:
                                    continue
                            optional, ty = ms[0]
                            want_opt = idx.is_optional(fld)
                            if optional != want_opt:
                                why = 'nullable' if idx.is_nullable(fld['type']) else \
                                    'defaulted' if fld.get('default') is not None else 'required'
                                if why == 'nullable' and fld['type'][0] == 'alias':
                                    why = 'nullable-through-alias'     # stone's alias-of-nullable defect (DESIGN 5)
                                self.viol('tsd-types', '%s: field %s is %s but declared %s' % (
                                    where, fld['name'], why, 'optional' if optional else 'required'), 'optional-flag', why)
                            t = fld['type'][1] if fld['type'][0] == 'nullable' else fld['type']
                            self.ts_type_text(ty, t, ns, where + ' field ' + fld['name'], 'field', strict_root=True)
                        extra = [m for m in members if m not in {x['name'] for x in d['fields']}]
                        if extra:
                            self.viol('tsd-types', '%s declares members %s that are no fields' % (where, extra), 'field-extra')
                    if in_enum_tree(idx, ns, d):
                        ref = one(d['name'] + 'Reference', 'interface', 'polymorphic reference of', 'struct-reference')
                        if ref is not None:
                            if [ts_fmt(e) for e in ref['extends']] != [d['name']]:
                                self.viol('tsd-types', '%sReference extends %s' % (where, [ts_fmt(e) for e in ref['extends']]),
                                          'reference-extends')
                            if [m[0] for m in ref['members']] != ['.tag']:
                                self.viol('tsd-types', '%sReference has members %s' % (where, [m[0] for m in ref['members']]),
                                          'reference-members')
                elif d['k'] == 'union':
                    ty = one(d['name'], 'type', 'union', 'union')
                    want_members = []
                    if d.get('parent'):
                        want_members.append(ts_qual(d['parent'][0], d['parent'][1], ns))
                    for t in self.own_tags(ns, d):
                        vname = d['name'] + pascal(t['name'])
                        want_members.append(vname)
                        it = one(vname, 'interface', 'variant of union', 'union-variant')
                        if it is None:
                            continue
                        vwhere = '%s tag %s (%s)' % (where, t['name'], vname)
                        members = collections.defaultdict(list)
                        for mname, optional, mty in it['members']:
                            members[mname].append((optional, mty))
                        tg = members.get('.tag', [])
                        if len(tg) != 1 or tg[0][0] or tg[0][1] != ('str', t['name']):
                            self.viol('tsd-types', '%s: \'.tag\' members are %s' % (vwhere, [ts_fmt(x[1]) for x in tg]),
                                      'variant-tag-literal')
                        tt = t['type']
                        flat = tt is not None and tt[0] == 'ref' and idx.get(tt[1], tt[2])['k'] == 'struct' \
                            and not is_enum_root(idx, tt)
                        got_ext = [ts_fmt(e) for e in it['extends']]
                        want_ext = [ts_qual(tt[1], tt[2], ns)] if flat else []
                        if got_ext != want_ext:
                            self.viol('tsd-types', '%s extends %s, expected %s' % (vwhere, got_ext, want_ext), 'variant-extends',
                                      shape(idx, tt, ns))
                        val = members.get(t['name'], [])
                        if tt is None or flat:
                            if val:
                                self.viol('tsd-types', '%s has a value member' % vwhere, 'variant-value-member',
                                          'unexpected', shape(idx, tt, ns))
                        elif len(val) != 1:
                            self.viol('tsd-types', '%s has %d value members' % (vwhere, len(val)), 'variant-value-member',
                                      'missing' if not val else 'more-than-once', shape(idx, tt, ns))
                        else:
                            self.ts_type_text(val[0][1], tt, ns, vwhere, 'tag', strict_root=True)
                        extra = [m for m in members if m not in ('.tag', t['name'])]
                        if extra:
                            self.viol('tsd-types', '%s has members %s' % (vwhere, extra), 'variant-extra-members')
                    if ty is not None:
                        a = ty['type']
                        got = [ts_fmt(x) for x in (a[1] if a[0] == 'union' else [a])]
                        if sorted(got) != sorted(want_members):
                            self.viol('tsd-types', '%s = %s, expected the variants %s' % (where, got, want_members),
                                      'union-members', 'missing' if set(want_members) - set(got) else 'extra-or-repeated',
                                      'parent' if d.get('parent') and want_members[0] not in got else 'variant')
                elif d['k'] == 'alias':
                    ty = one(d['name'], 'type', 'alias', 'alias')
                    if ty is not None:
                        self.ts_type_text(ty['type'], d['type'], ns, where + ' (alias)', 'alias', strict_root=False)
        # resolution of every referenced name
        ns_of_space = {id(v[2]): k for k, v in spaces.items()}
        for path, f in parsed.items():
            if f is None:
                continue
            top = {d['name'] for d in f['top']}
            same_file = {sp['name']: sp for sp in f['spaces'] if sp['kind'] == 'namespace'}
            for sp in f['spaces']:
                local = {d['name'] for d in sp['decls']}
                for d in sp['decls']:
                    for site, ty in decl_types(d):
                        for name, tpath in ts_names(ty):
                            why = self.resolve_ts(name, local | top | set(d.get('params', [])), same_file, f, mod_spaces)
                            if not why:
                                continue
                            here = ns_of_space.get(id(sp))
                            if why in IMPORT_REASONS:
                                detail = [mode, why, self.reference_reasons(here, name.split('.')[0])]
                            else:
                                q = name.split('.')
                                detail = [why, self.entity_kind(q[0] if len(q) == 2 else here, q[-1])]
                            self.viol('unresolved-name', '%s %s: %s %s mentions %s: %s' % (cfg, path, d['kind'], d['name'], name, why),
                                      'tsd_types', *detail)
            for d in f['top']:
                for site, ty in decl_types(d):
                    for name, tpath in ts_names(ty):
                        why = self.resolve_ts(name, top | set(d.get('params', [])), same_file, f, mod_spaces)
                        if why:
                            self.viol('unresolved-name', '%s %s: top-level %s mentions %s: %s' % (cfg, path, d['name'], name, why),
                                      'tsd_types', why, 'header')
        return spaces

    def reference_reasons(self, ns, other):
        """How namespace `ns` of the model refers to namespace `other` (root-cause detail for a
        missing import)."""
        if ns is None or ns not in self.idx.ns:
            return 'unknown-namespace'
        why = set()
        for d in self.idx.ns[ns]['defs']:
            if d.get('parent') and d['parent'][0] == other:
                why.add('parent')
            ts = [f['type'] for f in d.get('fields', [])] + [t['type'] for t in d.get('tags', []) if t['type'] is not None] + \
                ([d['type']] if d['k'] == 'alias' else [])
            for t in ts:
                for s in refs_in(t):
                    if s[1] == other:
                        why.add('alias' if s[0] == 'alias' else 'data-type')
        return 'referenced-through:' + ('+'.join(sorted(why)) or 'nothing-in-the-model')

    def entity_kind(self, ns, name):
        """What a (namespace, declared-name) pair denotes in the model."""
        idx = self.idx
        if (ns, name) in idx.defs:
            return idx.defs[(ns, name)]['k']
        if name.endswith('Reference') and idx.defs.get((ns, name[:-9]), {}).get('k') == 'struct':
            return 'struct-reference'
        for n, d in idx.types(('union',)):
            if n == ns and name.startswith(d['name']) and any(
                    d['name'] + pascal(t['name']) == name for t in self.own_tags(n, d)):
                return 'union-variant'
        return 'name-not-in-the-model'

    def own_tags(self, ns, d):
        out = list(d['tags'])
        if self.idx.has_catch_all_own(ns, d):
            out.append({'name': 'other', 'type': None})
        return out

    def resolve_ts(self, name, simple_scope, same_file, f, mod_spaces):
        """'' when the (possibly qualified) name resolves, else a coarse reason."""
        parts = name.split('.')
        if len(parts) == 1:
            return '' if name in simple_scope or name in TS_BUILTIN else 'simple name not declared in scope'
        if len(parts) > 2:
            return 'name with more than one qualifier'
        q, x = parts
        if q in same_file:
            sp = same_file[q]
        elif q in f['star']:
            sp = mod_spaces.get(('module', f['star'][q]))
            if sp is None:
                return 'qualifier imported from a module that is not generated'
        else:
            return 'qualifier is neither a namespace of this file nor imported'
        for d in sp['decls']:
            if d['name'] == x:
                return '' if d['export'] else 'declaration is not exported'
        return 'name is not declared in the qualifying namespace'

    def ts_type_text(self, got, t, ns, where, site, strict_root=False):
        alts = ts_alts(self.idx, t, ns, strict_root=strict_root)
        if alts is None:
            self.note('unspec:ts-type')
            return
        if ts_fmt(got) not in alts:
            self.viol('tsd-types' if site != 'route' else 'tsd-client', '%s has type %s, expected %s' % (
                where, ts_fmt(got), ' or '.join(sorted(alts))), 'type', site, coarse(self.idx, t, ns))

    # -- tsd_client ----------------------------------------------------------------------------
    def tsd_client(self, cfg, parsed, types_scan, types_cfg):
        idx = self.idx
        f = parsed.get('client.d.ts')
        if f is None:
            if 'client.d.ts' not in parsed:
                self.viol('tsd-client', '%s wrote %s, not client.d.ts' % (cfg, sorted(parsed)), 'output-file')
            return
        methods = [m for c in f['classes'] for m in c['methods']]
        routes = list(idx.routes())
        keys = collections.Counter(route_key(n, r) for n, r in routes)
        if any(c > 1 for c in keys.values()):
            self.note('unjudged:route-name-collision-after-mangling')
            return
        by_key = collections.defaultdict(list)
        for m in methods:
            by_key[M.canon(m['name'])].append(m)
        extra = sorted(set(by_key) - set(keys))
        if extra:
            self.viol('tsd-client', '%s declares methods %s that are no route versions' % (
                cfg, [m['name'] for k in extra for m in by_key[k]]), 'method-unexpected',
                'drops-version-suffix' if any(k2.startswith(k) for k in extra for k2 in keys) else 'other')
        wrap = opt(cfg, '--wrap-response-in')
        for n, r in routes:
            ms = by_key.get(route_key(n, r), [])
            vclass = 'version-1' if r['version'] == 1 else 'later-version'
            if len(ms) != 1:
                self.viol('tsd-client', '%s: route %s.%s:%d has %d methods' % (cfg, n, r['name'], r['version'], len(ms)),
                          'method-count', vclass, 'missing' if not ms else 'more-than-once')
                if not ms:
                    continue
            m = ms[0]
            where = '%s: method %s (%s.%s:%d)' % (cfg, m['name'], n, r['name'], r['version'])
            if r['arg'] == M.VOID:
                if m['params']:
                    self.viol('tsd-client', '%s takes parameters for a Void argument' % where, 'arg-presence', 'void-arg')
            elif len(m['params']) != 1 or m['params'][0][1]:
                self.viol('tsd-client', '%s takes %d parameters' % (where, len(m['params'])), 'arg-presence', 'arg')
            else:
                self.ts_client_type(m['params'][0][2], r['arg'], where + ' argument', 'arg')
            ret = m['ret']
            ok = ret[0] == 'name' and ret[1] == 'Promise' and len(ret[2]) == 1
            inner = ret[2][0] if ok else None
            if ok and wrap:
                ok = inner[0] == 'name' and inner[1] == wrap and len(inner[2]) == 1
                inner = inner[2][0] if ok else None
            if not ok:
                self.viol('tsd-client', '%s returns %s, expected Promise<%s>' % (
                    where, ts_fmt(ret), '%s<...>' % wrap if wrap else '...'), 'result-wrapper', 'wrapped' if wrap else 'plain')
            else:
                self.ts_client_type(inner, r['result'], where + ' result', 'result')
        # name resolution: against the companion types file
        if types_scan is None:
            self.note('unjudged:tsd-client-resolution(no companion types output)')
            return
        imports = has(cfg, '--import-namespaces')
        tfile = types_scan['parsed'].get('types.d.ts')
        if tfile is None:
            return
        spaces = {sp['name']: sp for sp in tfile['spaces'] if sp['kind'] == 'namespace'}
        top = {d['name'] for d in tfile['top']}
        supplied = {w for w in (wrap, opt(cfg, '--wrap-error-in')) if w}
        for m in methods:
            for site, ty in [('method-arg', p[2]) for p in m['params']] + [('method-result', m['ret'])]:
                for name, tpath in ts_names(ty):
                    parts = name.split('.')
                    why = ''
                    if len(parts) == 1:
                        if name in TS_BUILTIN or name in supplied:
                            continue
                        if imports:
                            why = 'simple name is not imported' if name not in f['named'] else ''
                            if name in top and name not in f['named']:
                                why = 'declared at the top of the types file but not imported'
                        elif name not in top:
                            why = 'simple name not declared by the types file'
                    elif len(parts) == 2:
                        q, x = parts
                        if imports and q not in f['named']:
                            why = 'qualifier is not imported'
                        elif q not in spaces:
                            why = 'qualifier is no namespace of the types file'
                        elif imports and not spaces[q]['export']:
                            why = 'imported namespace is not exported by the types file'
                        elif not any(d['name'] == x and d['export'] for d in spaces[q]['decls']):
                            why = 'name is not declared in the qualifying namespace'
                    else:
                        why = 'name with more than one qualifier'
                    if why:
                        header = name if name in ('Timestamp', 'Error', 'UserMessage') else None
                        self.viol('unresolved-name', '%s (with %s): method %s mentions %s: %s' % (cfg, types_cfg, m['name'], name, why),
                                  'tsd_client', 'import-namespaces' if imports else 'ambient', why,
                                  header or (self.entity_kind(parts[0], parts[1]) if len(parts) == 2 else 'simple-name'))
        if imports:
            for q, src in f['named'].items():
                if q not in spaces:
                    self.viol('unresolved-name', '%s imports { %s } from %r, which the types file does not declare' % (cfg, q, src),
                              'tsd_client', 'import-namespaces', 'import-list', 'namespace-not-declared')
                elif not spaces[q]['export']:
                    self.viol('unresolved-name', '%s imports { %s }, which the types file does not export' % (cfg, q),
                              'tsd_client', 'import-namespaces', 'import-list', 'namespace-not-exported')

    def ts_client_type(self, got, t, where, site):
        alts = ts_alts(self.idx, t, None, strict_root=True)
        if alts is None:
            self.note('unspec:ts-type')
            return
        if ts_fmt(got) not in alts:
            self.viol('tsd-client', '%s has type %s, expected %s' % (where, ts_fmt(got), ' or '.join(sorted(alts))),
                      'type', site, coarse(self.idx, t))


def js_norm(e):
    if isinstance(e, bool) or e is None or isinstance(e, str):
        return e
    return float(e)


def js_got(g):
    t = g['t']
    if t == 'null':
        return None
    if t == 'num':
        try:
            return float(g['v'])
        except ValueError:
            return ('nan', g['v'])
    if t in ('str', 'bool'):
        return g['v']
    return (t, g.get('v', g.get('i')))


def js_value_eq(e, g):
    a, b = js_norm(e), js_got(g)
    return type(a) is type(b) and a == b


def string_class(e):
    if not isinstance(e, str):
        return ''
    if any(ord(c) > 0xffff and not c.isprintable() for c in e):
        return ':astral-nonprintable-character'
    if any(not c.isprintable() for c in e):
        return ':nonprintable-character'
    if "'" in e or '"' in e or '\\' in e:
        return ':quote-or-backslash'
    return ':plain'


def run_node(jobdir, items):
    path = os.path.join(jobdir, 'job.json')
    with open(path, 'w') as f:
        json.dump({'files': items}, f)
    pr = subprocess.run(['node', HARNESS, path], capture_output=True, timeout=300)
    out = pr.stdout.decode('utf-8', 'replace')
    if '##RESULT##' not in out or '##END##' not in out:
        raise RuntimeError('node harness produced no result (rc=%s): %s' % (pr.returncode, pr.stderr.decode('utf-8', 'replace')[-400:]))
    return {r['id']: r for r in json.loads(out.split('##RESULT##', 1)[1].rsplit('##END##', 1)[0])}


def node_check(path):
    pr = subprocess.run(['node', '--check', path], capture_output=True, timeout=120)
    return pr.returncode, pr.stderr.decode('utf-8', 'replace')


def generate(cfg, ir):
    """One configured backend on the already compiled Api (the four JavaScript / TypeScript
    backends keep aliases and only read the Api, so one compilation serves every option set)."""
    d = tempfile.mkdtemp(prefix='sv_c16_be_')
    try:
        backends.run_backend(cfg, ir, d)
        return backends.read_tree(d, skip=set(backends.CONFIGS[cfg][2]))
    finally:
        shutil.rmtree(d, ignore_errors=True)


def case_classes(api):
    idx = M.Index(api)
    fs = gen.features(api)
    cl = set(fs & {'multi_ns', 'import', 'xns_ref', 'xns_parent', 'inheritance', 'enumerated_subtypes', 'union_inheritance',
                   'alias', 'alias_chain', 'alias_use', 'nullable', 'list', 'map', 'nest2', 'default', 'tag_default',
                   'route', 'route_version', 'attrs', 'deprecated', 'patch', 'annotation'})
    sch = api.get('schema')
    cl.add('schema:%s' % ('none' if not sch else 'fields'))
    for f in (sch['fields'] if sch else []):
        cl.add('schema-attr:' + shape(idx, idx.base(f['type'])))
    for n, r in idx.routes():
        if r['arg'] == M.VOID:
            cl.add('route_void_arg')
        for pos in ('arg', 'result', 'error'):
            for s in refs_in(r[pos]):
                if s[1] != n:
                    cl.add('route_xns_ref')
                if s[0] == 'alias':
                    cl.add('route_alias_io')
            if r[pos][0] in ('list', 'map', 'nullable') or (r[pos][0] == 'prim' and r[pos] != M.VOID):
                cl.add('route_io_not_user_type')
            if is_enum_root(idx, r[pos]):
                cl.add('route_io_enum_root')
    for n, d in idx.types(('union',)):
        for t in d['tags']:
            if t['type'] is not None and idx.is_nullable(t['type']):
                cl.add('nullable_tag')
            if t['type'] is not None and t['type'][0] == 'ref' and idx.get(t['type'][1], t['type'][2])['k'] == 'struct':
                cl.add('struct_tag')
    for n, d in idx.types(('struct',)):
        for f in d['fields']:
            for s in M.walk_types(f['type']):
                if is_enum_root(idx, s):
                    cl.add('enum_root_use')
    return fs, cl


def run(case, rec):
    api = case['api']
    specs, _ = render.render(api)
    kind, payload = front.compile_specs(specs)
    if kind != 'api':
        rec.note('frontend_refused(judged by C01/C03):%s' % kind)
        return
    fs, cl = case_classes(api)
    nontrivial = bool(fs & {'xns_ref', 'xns_parent', 'enumerated_subtypes', 'inheritance', 'alias_chain'}) or 'route_xns_ref' in cl
    J = Judge(case, rec, specs, payload)
    outputs = {}
    crashed = set()
    for cfg in ORDER:
        modname = backends.CONFIGS[cfg][0]
        try:
            outputs[cfg] = generate(cfg, payload)
        except backends.BackendCrash as e:
            outputs[cfg] = None
            last = e.tb.strip().split('\n')[-1]
            if 'There is a name conflict between' in last:
                rec.note('unjudged:backend-refuses-route-name-conflict')     # pinned by test_js_client / test_tsd_client
            else:
                sig = tb_text_sig(e.tb)
                if (modname, sig) not in crashed:
                    crashed.add((modname, sig))
                    rec.violation('C16|backend-crash|%s|%s' % (modname, sig),
                                  '%s failed on an accepted spec: %s' % (cfg, last[:200]), case=case, human=specs)
        rec.case(core.h64((repr(specs), cfg)), nontrivial,
                 classes=(sorted(cl) if cfg == ORDER[0] else []) + ['cfg:' + cfg] +
                 (['crash:' + modname] if outputs[cfg] is None else []),
                 sample=lambda: {'config': cfg, 'args': backends.CONFIGS[cfg][1],
                                 'files': [(p, t[:400]) for p, t in specs[:3]]})

    def text_of(cfg, path):
        files = outputs.get(cfg)
        if files is None:
            return None
        if path not in files:
            J.viol('output-file', '%s wrote %s, not %s' % (cfg, sorted(files), path), backends.CONFIGS[cfg][0])
            return None
        try:
            return files[path].decode('utf-8')
        except UnicodeDecodeError:
            J.viol('output-file', '%s: %s is not UTF-8' % (cfg, path), backends.CONFIGS[cfg][0], 'not-utf8')
            return None

    # ---- JavaScript ------------------------------------------------------------------------
    tmp = tempfile.mkdtemp(prefix='sv_c16_')
    try:
        items = []
        texts = {}
        for cfg in JS_TYPES + JS_CLIENT:
            path = 'types.js' if cfg in JS_TYPES else 'routes.js'
            text = text_of(cfg, path)
            if text is None:
                continue
            texts[cfg] = text
            p = os.path.join(tmp, cfg + '.mjs')
            with open(p, 'w', encoding='utf-8') as f:
                f.write(text)
            items.append({'id': cfg, 'path': p, 'kind': 'client' if cfg in JS_CLIENT else 'parse'})
        results = run_node(tmp, items) if items else {}
        tds = None
        for cfg in JS_TYPES + JS_CLIENT:
            if cfg not in texts:
                continue
            res = results[cfg]
            modname = backends.CONFIGS[cfg][0]
            if res['error'] is not None:
                msg = re.sub(r"'[^']*'|\"[^\"]*\"|`[^`]*`", 'Q', res['error']['message'])
                msg = re.sub(r'\d+', 'N', msg)[:60]
                if res['error']['name'] == 'SyntaxError':
                    rc, err = node_check(os.path.join(tmp, cfg + '.mjs'))
                    if rc != 0:
                        J.viol('js-syntax', '%s output does not parse (node --check): %s' % (cfg, err.strip()[-300:]), modname, msg)
                    else:
                        J.viol('js-load-error', '%s output fails to load: %r' % (cfg, res['error']), modname, 'SyntaxError', msg)
                else:
                    J.viol('js-load-error', '%s output fails to load: %r' % (cfg, res['error']), modname, res['error']['name'], msg)
            if cfg in JS_TYPES:
                tds = J.js_types(cfg, texts[cfg])
            else:
                J.js_client(cfg, texts[cfg], res, tds)
    finally:
        shutil.rmtree(tmp, ignore_errors=True)

    # ---- TypeScript ------------------------------------------------------------------------
    scans = {}
    for cfg in TSD_TYPES:
        if outputs.get(cfg) is None:
            continue
        parsed = J.parse_ts(cfg, outputs[cfg])
        spaces = J.tsd_types(cfg, parsed)
        scans[cfg] = {'parsed': parsed, 'spaces': spaces}
    for cfg in TSD_CLIENT:
        if outputs.get(cfg) is None:
            continue
        parsed = J.parse_ts(cfg, outputs[cfg])
        tcfg = 'tsd_types_export' if has(cfg, '--import-namespaces') else 'tsd_types'
        J.tsd_client(cfg, parsed, scans.get(tcfg), tcfg)


@st.composite
def cases(draw):
    r = draw(st.integers(0, 99))
    schema = 'generic' if r < 30 else 'client' if r < 50 else 'plain'
    # aliases of nullable types in one spec out of four (stone's backends disagree on them: known finding)
    return {'api': draw(gen.api_models(gen.Cfg(**dict(C16_CFG, schema=schema, nullable_aliases=draw(st.integers(0, 3)) == 0))))}


def floors(ctx, classes, evaluations, notes):
    msgs = []
    tot = classes.get('cfg:js_types', 0)
    if not tot:
        return ['no spec was accepted by the frontend']
    for c, frac in (('xns_ref', 0.25), ('inheritance', 0.2), ('enumerated_subtypes', 0.05), ('alias_chain', 0.04),
                    ('route_version', 0.15), ('attrs', 0.3), ('route_xns_ref', 0.1), ('route_void_arg', 0.3),
                    ('default', 0.3), ('nullable', 0.4), ('union_inheritance', 0.1)):
        if classes.get(c, 0) < frac * tot * 0.6:
            msgs.append('feature class %s below floor: %d of %d specs' % (c, classes.get(c, 0), tot))
    return msgs


def parts(ctx):
    return [Part('jsts', run, strategy=cases(), n=ctx.n(208, 6000), budget_s=ctx.n(55, 3000))]
