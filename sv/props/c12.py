"""C12 - code generation is deterministic."""
import json
import os
import subprocess
import sys
import tempfile

from hypothesis import strategies as st

from .. import core, front, gen, render, backends, model as M, REPO, VERIF_DIR
from ..core import Part

RULE = ('generated specs biased to what flows through sets and dicts (several Omitted callers on one type, '
        'custom annotations, many imports, route whitelists) x every built-in backend configuration x '
        'PYTHONHASHSEED in {0, 1, 2, two drawn} x history in {fresh process, after compiling an unrelated '
        'spec, after running another backend on another spec} x two output directories; one subprocess per '
        '(spec, hash seed, history) reports a digest per output file and all digests of a (spec, backend) '
        'must coincide. non-trivial = spec has >=2 omitted callers on a type, custom annotations, >=2 '
        'imports or a whitelist; distinct by (spec, backend). histories (stateful): generated sequences of '
        '4-12 steps executed in one process - each step compiles the spec, a later revision of it with the '
        'same names, or an unrelated spec, and runs one configuration of one backend family into a '
        'directory, optionally through the whitelist; finished API descriptions are garbage collected; every '
        'step must write the bytes a fresh process writes for the same (spec, backend, whitelist).')
TECHNIQUE = 'property-based testing (Hypothesis): differential runs across hash seeds, directories and generated process histories'
ASSUMPTIONS = ['Backends that crash must crash identically; crashes themselves are judged by C09/C16/C17.']
WORKER = os.path.join(VERIF_DIR, 'sv', 'c12_worker.py')

C12_CFG = dict(schema='swift', omitted=True, annot_bias=True, max_ns=4, max_types=6, max_routes=3,
               route_io_any=False, examples=True)


@st.composite
def cases(draw):
    kw = dict(C12_CFG)
    if draw(st.integers(0, 3)) == 0:
        kw['annot_bias'] = False
    api = draw(gen.api_models(gen.Cfg(**kw)))
    other = draw(gen.api_models(gen.Cfg(schema='swift', max_ns=2, max_types=4, route_io_any=False)))
    idx = M.Index(api)
    wl = None
    routes = list(idx.routes())
    if routes and draw(st.integers(0, 3)) == 0:
        rw = {}
        for ns, r in routes:
            if draw(st.booleans()):
                rw.setdefault(ns, []).append(r['name'] if r['version'] == 1 else '%s:%d' % (r['name'], r['version']))
        wl = {'route_whitelist': rw, 'datatype_whitelist': {}}
    seeds = [0, 1, 2, draw(st.integers(3, 4000)), draw(st.integers(3, 4000))]
    return {'api': api, 'other': other, 'whitelist': wl, 'seeds': seeds}


def biased(api):
    idx = M.Index(api)
    fs = gen.features(api)
    multi_omit = False
    for n, d in idx.types():
        callers = set()
        for m in d.get('fields', d.get('tags')):
            for a in m.get('annots') or []:
                ad = idx.get(a[0], a[1])
                if ad['atype'][1] == 'Omitted':
                    callers.add(ad['args'][0])
        if len(callers) >= 2:
            multi_omit = True
    imports = max([len(n['imports']) for n in api['namespaces']] + [0])
    return multi_omit, 'custom_annotation' in fs, imports >= 2


def run_worker(job, seed):
    d = tempfile.mkdtemp(prefix='sv_c12_job_')
    try:
        path = os.path.join(d, 'job.json')
        with open(path, 'w') as f:
            json.dump(job, f)
        env = dict(os.environ, PYTHONHASHSEED=str(seed))
        pr = subprocess.run([sys.executable, WORKER, path], capture_output=True, text=True, env=env, timeout=600)
        if '##RESULT##' not in pr.stdout:
            return None, pr.stderr[-400:]
        return json.loads(pr.stdout.split('##RESULT##')[1]), None
    finally:
        import shutil
        shutil.rmtree(d, ignore_errors=True)


def run(case, rec):
    api = case['api']
    specs, _ = render.render(api)
    other, _ = render.render(case['other'])
    kind, _ = front.compile_specs(specs)
    if kind != 'api':
        rec.note('not_accepted(judged by C01/C03)')
        return
    mo, ca, im = biased(api)
    plans = [(case['seeds'][0], 'fresh', 'out_a'), (case['seeds'][1], 'fresh', 'out_a'),
             (case['seeds'][2], 'after_spec', 'out_a'), (case['seeds'][3], 'after_backend', 'out_b'),
             (case['seeds'][4], 'fresh', 'a/deeper/out_dir')]
    names = backends.ALL
    results = []
    for seed, history, dirname in plans:
        job = {'repo': REPO, 'verif': VERIF_DIR, 'specs': specs, 'other': other, 'whitelist': case['whitelist'],
               'backends': names, 'history': history, 'dirname': dirname}
        res, err = run_worker(job, seed)
        if res is None:
            raise core.HarnessError('C12 worker died: %s' % err)
        results.append(((seed, history, dirname), res))
    for b in names:
        rec.case(core.h64((repr(specs), b, repr(case['whitelist']))), mo or ca or im or bool(case['whitelist']),
                 classes=['backend:' + b] + (['multi_omitted_callers'] if mo else []) + (['custom_annotations'] if ca else []) +
                 (['many_imports'] if im else []) + (['whitelist'] if case['whitelist'] else []),
                 sample=lambda: {'backend': b, 'files': [(p, t[:300]) for p, t in specs[:1]], 'runs': [p for p, _ in results]})
        base_plan, base = results[0][0], results[0][1][b]
        for plan, res in results[1:]:
            if res[b] != base:
                files = sorted(k for k in set(base) | set(res[b]) if base.get(k) != res[b].get(k))
                what = 'hash-seed' if plan[1] == 'fresh' and plan[2] == base_plan[2] else \
                    ('history:' + plan[1] if plan[1] != 'fresh' else 'output-dir')
                detail = diff_detail(case, specs, other, b, base_plan, plan, files)
                rec.violation('C12|differs|%s|%s|%s' % (b, what, detail),
                              'backend %s wrote different bytes for %s between run %r and run %r' % (b, files[:3], base_plan, plan),
                              case=case, human={'files': specs, 'backend': b, 'runs': [base_plan, plan], 'differing': files[:5]})
                break


def diff_detail(case, specs, other, b, plan_a, plan_b, files):
    """Re-run the two configurations keeping contents and name the kind of line that differs."""
    import difflib
    outs = []
    for seed, history, dirname in (plan_a, plan_b):
        job = {'repo': REPO, 'verif': VERIF_DIR, 'specs': specs, 'other': other, 'whitelist': case['whitelist'],
               'backends': backends.ALL, 'history': history, 'dirname': dirname, 'keep': b}
        res, _ = run_worker(job, seed)
        outs.append((res or {}).get('__content__', {}))
    kinds = set()
    for f in files:
        x = outs[0].get(f, '').split('\n')
        y = outs[1].get(f, '').split('\n')
        for ln in difflib.unified_diff(x, y, lineterm='', n=0):
            if ln[:1] in '+-' and not ln.startswith(('+++', '---')) and ln[1:].strip():
                t = ln[1:].strip()
                import re
                t = re.sub(r"'[^']*'|\"[^\"]*\"", 'Q', t)
                t = re.sub(r'[A-Za-z_][A-Za-z_0-9]*', lambda m: m.group(0) if m.group(0).startswith('_') or m.group(0) in
                           ('if', 'is', 'self', 'import', 'from', 'class', 'def', 'annotation_type') else 'w', t)
                kinds.add(t[:40])
                if len(kinds) >= 2:
                    break
    return ' ## '.join(sorted(kinds))[:90] if kinds else 'not-reproduced-on-rerun'


# ---------------------------------------------------------------------------------------
# histories: a generated sequence of (spec, backend) runs inside one process; every step must
# produce the bytes a fresh process produces for the same (spec, backend, whitelist)

def revised(api):
    """A later revision of the same spec: same names, some structs gain an optional field of a new type."""
    import copy
    api2 = copy.deepcopy(api)
    for n in api2['namespaces']:
        structs = [d for d in n['defs'] if d['k'] == 'struct']
        names = {M.canon(d['name']) for d in n['defs'] if 'name' in d} | {M.canon(n['name'])}
        if not structs or 'zzrevision' in names:
            continue
        n['defs'].append({'k': 'struct', 'name': 'ZzRevision', 'parent': None, 'doc': None, 'fields': [
            {'name': 'zz_note', 'type': M.prim('String'), 'doc': None, 'default': None, 'annots': []}],
            'subtypes': None, 'examples': [], 'patch': 0})
        for d in structs[::2]:
            taken = {f['name'] for f in d['fields']}
            if 'zz_revision' not in taken:
                d['fields'].append({'name': 'zz_revision', 'type': ('nullable', ('ref', n['name'], 'ZzRevision')),
                                    'doc': None, 'default': None, 'annots': []})
    return api2


FAMILIES = [[b for b in backends.ALL if b.startswith(p)] for p in ('python', 'js_', 'tsd_', 'swift', 'obj_c')] + \
    [[b for b in backends.ALL if b.startswith(('swift', 'obj_c'))], [b for b in backends.ALL if b.startswith(('js_', 'tsd_'))]]


@st.composite
def history_cases(draw):
    kw = dict(C12_CFG)
    api = draw(gen.api_models(gen.Cfg(**kw)))
    other = draw(gen.api_models(gen.Cfg(schema='swift', max_ns=2, max_types=4, route_io_any=False)))
    idx = M.Index(api)
    wl = None
    routes = list(idx.routes())
    if routes and draw(st.integers(0, 2)) == 0:
        rw = {}
        for ns, r in routes:
            if draw(st.booleans()):
                rw.setdefault(ns, []).append(r['name'] if r['version'] == 1 else '%s:%d' % (r['name'], r['version']))
        wl = {'route_whitelist': rw, 'datatype_whitelist': {}}
    # state that leaks between runs lives in one backend module or in helpers shared by a family
    fam = draw(st.sampled_from(FAMILIES))
    pool = draw(st.lists(st.sampled_from(fam), min_size=1, max_size=min(3, len(fam)), unique=True))
    script = []
    for _ in range(draw(st.integers(4, 12))):
        script.append([draw(st.sampled_from([0, 0, 1, 2, 2])), draw(st.sampled_from(pool)),
                       draw(st.sampled_from(['out', 'out', 'x/y'])), bool(wl) and draw(st.booleans()),
                       # keep the compiled API description and hand the same object to the next step that
                       # asks for the same spec (a build script running several backends on one compile)
                       draw(st.integers(0, 3)) == 0])
    return {'api': api, 'other': other, 'whitelist': wl, 'script': script, 'seed': draw(st.integers(0, 4000))}


def run_histories(case, rec):
    api = case['api']
    try:
        api2 = revised(api)
        sets = [render.render(api)[0], render.render(api2)[0], render.render(case['other'])[0]]
    except Exception as e:
        raise core.HarnessError('C12 histories: cannot render: %r' % (e,))
    for sp in sets[:2]:
        kind, payload = front.compile_specs(sp)
        if kind != 'api':
            rec.note('not_accepted(judged by C01/C03)')
            return
    wl = case['whitelist']
    script = [list(s) for s in case['script']]
    base_job = {'repo': REPO, 'verif': VERIF_DIR, 'spec_sets': sets, 'whitelist': wl}
    res, err = run_worker(dict(base_job, script=script), case['seed'])
    if res is None:
        raise core.HarnessError('C12 worker died: %s' % err)
    steps = res['steps']
    fresh = {}
    for i, st_ in enumerate(script):
        key = (st_[0], st_[1], st_[3])
        if key not in fresh:
            r, err = run_worker(dict(base_job, script=[st_[:4]]), case['seed'])
            if r is None:
                raise core.HarnessError('C12 worker died: %s' % err)
            fresh[key] = r['steps'][0]
        earlier = [(s[0], s[1]) for s in script[:i]]
        ctx_kind = ('same-backend-earlier' if any(b == st_[1] for _, b in earlier) else 'other-backends-earlier') + \
            ('|same-spec-earlier' if any(x == st_[0] for x, _ in earlier) else '') + \
            ('|revision-earlier' if st_[0] in (0, 1) and any(x == 1 - st_[0] for x, _ in earlier) else '')
        rec.case(core.h64((repr(sets), repr(script[:i + 1]), repr(wl))), i >= 1,
                 classes=['hist_backend:' + st_[1], 'hist_ctx:' + ctx_kind.split('|')[0]] +
                 (['hist_revision_earlier'] if 'revision-earlier' in ctx_kind else []) + (['hist_whitelist'] if st_[3] else []) +
                 (['hist_shared_api'] if len(st_) > 4 and st_[4] and i and script[i - 1][0] == st_[0] and
                  len(script[i - 1]) > 4 and script[i - 1][4] and script[i - 1][3] == st_[3] and
                  all(backends.CONFIGS[x[1]][0] in ('python_types', 'python_type_stubs') for x in (st_, script[i - 1])) else []),
                 sample=lambda: {'script': script[:i + 1], 'files': [(p, t[:200]) for p, t in sets[0][:1]]})
        if steps[i] != fresh[key]:
            files = sorted(k for k in set(steps[i]) | set(fresh[key]) if steps[i].get(k) != fresh[key].get(k))
            rec.violation('C12|differs|%s|history:sequence|%s' % (st_[1], ctx_kind),
                          'backend %s wrote different bytes for %s at step %d of the history %r than in a fresh process' % (
                              st_[1], files[:3], i, script[:i + 1]),
                          case=dict(case, script=script[:i + 1]),
                          human={'spec_sets': sets, 'script': script[:i + 1], 'differing': files[:5]})
            break


def parts(ctx):
    return [Part('determinism', run, strategy=cases(), n=ctx.n(24, 400), budget_s=ctx.n(200, 3000)),
            Part('histories', run_histories, strategy=history_cases(), n=ctx.n(192, 3000), budget_s=ctx.n(150, 3000))]
