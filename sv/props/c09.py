"""C09 - generated Python modules load and expose the whole API as documented."""
import base64
import json
import os
import re
import subprocess
import sys

from hypothesis import strategies as st

from .. import core, gen, pyrt, pygen, render, values, ref_json, model as M, REPO, VERIF_DIR
from ..core import Part

RULE = ('generated specs (multi-namespace imports, cross-namespace parents and tag defaults, forward '
        'references, enumerated subtypes, aliases to user types, docs with references, unicode / quotes / '
        'backslashes, route attrs of every literal kind) compiled with python_types; one fresh interpreter '
        'per first-import choice imports every module; the first also checks the expected surface derived '
        'from the model (classes, bases, constructor parameters, attribute get/set/delete exercised with a '
        'generated valid value, is_/get_/creator helpers, void-tag instances, <Name>_validator for types '
        'and aliases, route objects with name/version/deprecated/validators/attrs, ROUTES). non-trivial = '
        '>=2 namespaces with a cross-namespace reference, or a forward reference, or a subtype tree; '
        'distinct by (spec, first import). Every other spec with three chained namespaces carries an alias chain across them; string attribute values and defaults are compared as the compiler accepted them.')
ASSUMPTIONS = ['Identifiers follow the documented conventions and are not Python reserved words.']
SCRIPT = os.path.join(VERIF_DIR, 'sv', 'py_introspect.py')

C09_CFG = dict(alias_tag_defaults=True, alias_nesting_bias=True, omitted=True, doc_escapes=True, schema='generic', max_ns=4, max_types=6, max_routes=3, examples=True)


def tb_text_sig(tb):
    """Root-cause key from a traceback given as text (BackendException carries only text)."""
    frames = re.findall(r'File "([^"]+)", line \d+, in (\S+)\n\s+(.*)', tb)
    inner = None
    for fn, func, line in frames:
        if '/stone/' in fn:
            inner = (fn.split('/stone/', 1)[-1], func, line.strip()[:90])
    last = tb.strip().split('\n')[-1]
    exc = last.split(':', 1)[0]
    return '%s|%s' % (exc, '%s:%s|%s' % inner if inner else '?')


def io_expect(t):
    if t[0] in ('ref', 'alias'):
        return ['named', t[1], t[2]]
    return ['kind', {'prim': t[1] if t[0] == 'prim' else None, 'list': 'List', 'map': 'Map',
                     'nullable': 'Nullable'}.get(t[0]) or t[1]]


def attr_json(idx, f, v):
    if v is None or v[1] is None:
        return None
    b = idx.base(f['type'])
    if v[0] == 'tag':
        return {'__tag__': v[1]}
    lit = v[1]
    if b[0] == 'prim' and b[1] == 'Bytes':
        return {'__bytes__': base64.b64encode(lit.encode('utf-8')).decode()}
    if b[0] == 'prim' and b[1] == 'Timestamp':
        # the API description holds the parsed timestamp; the module shows the same value
        return {'__timestamp__': [lit, M.pparams(b)['format']]}
    if b[0] == 'prim' and b[1] in M.FLOATS and v is f.get('default'):
        return float(lit)
    return lit


def default_json(idx, f):
    d = f['default']
    if d[0] == 'tag':
        return ['tag', d[1]]
    b = idx.base(f['type'])
    v = d[1]
    if b[0] == 'prim' and b[1] in M.FLOATS:
        v = float(v)
    if b[0] == 'prim' and b[1] in ('Bytes', 'Timestamp'):
        return ['skip', None]
    return ['lit', v]


def surface(api, docs):
    idx = M.Index(api)
    out = {}
    sch = api.get('schema')
    for n in api['namespaces']:
        ns = n['name']
        s = {'structs': [], 'unions': [], 'aliases': [], 'routes': []}
        for d in n['defs']:
            if d['k'] == 'struct':
                allf = idx.struct_all_fields(ns, d)
                e = {'name': d['name'], 'parent': list(d['parent']) if d['parent'] else None,
                     'all_fields': [f['name'] for _, _, f in allf],
                     'required': [f['name'] for _, _, f in allf if not idx.is_optional(f)],
                     'abstract': bool(d.get('subtypes')), 'doc': None, 'set_fields': [],
                     'defaults': {f['name']: default_json(idx, f) for _, _, f in allf
                                  if f.get('default') is not None},
                     'nullable': [f['name'] for _, _, f in allf if idx.is_nullable(f['type'])]}
                dv = docs.get((ns, d['name']))
                if dv is not None:
                    e['doc'] = ref_json.struct_fields_json(idx, dv, frozenset())
                    e['set_fields'] = sorted(dv[2])
                s['structs'].append(e)
            elif d['k'] == 'union':
                tags = idx.union_all_tags(ns, d)
                e = {'name': d['name'], 'parent': list(d['parent']) if d['parent'] else None,
                     'tags': [[t['name'], t['type'] is None] for _, _, t in tags], 'docs': []}
                for tag, dv in docs.get((ns, d['name']), []):
                    e['docs'].append([tag, ref_json.encode_union(idx, dv, frozenset())])
                s['unions'].append(e)
            elif d['k'] == 'alias':
                b = idx.unalias(('alias', ns, d['name']))
                s['aliases'].append({'name': d['name'], 'target': [b[1], b[2]] if b[0] == 'ref' else None})
            elif d['k'] == 'route':
                attrs = {}
                if sch:
                    for f in sch['fields']:
                        if f['name'] in d['attrs'] and d['attrs'][f['name']][1] is not None:
                            attrs[f['name']] = attr_json(idx, f, d['attrs'][f['name']])
                        elif f.get('default') is not None:
                            attrs[f['name']] = attr_json(idx, f, f['default'])
                        else:
                            attrs[f['name']] = None
                s['routes'].append({
                    'attr': pyrt.route_attr_name(d['name'], d['version']),
                    'key': d['name'] if d['version'] == 1 else '%s:%d' % (d['name'], d['version']),
                    'name': d['name'], 'version': d['version'], 'deprecated': d['deprecated'] is not None,
                    'arg': io_expect(d['arg']), 'result': io_expect(d['result']), 'error': io_expect(d['error']),
                    'attrs': attrs})
        out[ns] = s
    return out


@st.composite
def cases(draw, cfg_kw=None):
    kw = dict(C09_CFG)
    kw.update(cfg_kw or {})
    if draw(st.integers(0, 2)) == 0:
        kw['schema'] = 'plain'
    api = draw(gen.api_models(gen.Cfg(**kw)))
    # an alias chain over three namespaces: a imports b imports c, a does not import c; the class an alias
    # of a stands for is then defined two modules away
    byname = {n['name']: n for n in api['namespaces']}
    triples = [(a, byname[bn], byname[cn]) for a in api['namespaces'] for bn in a['imports'] for cn in byname[bn]['imports']
               if cn not in a['imports'] and cn != a['name']]
    if triples and draw(st.integers(0, 1)):
        a, b, c = draw(st.sampled_from(triples))
        users = [d for d in c['defs'] if d['k'] in ('struct', 'union')]
        taken_b = {M.canon(d.get('name', '')) for d in b['defs']} | {M.canon(b['name'])}
        taken_a = {M.canon(d.get('name', '')) for d in a['defs']} | {M.canon(a['name'])}
        if users and 'zztint' not in taken_b and 'zzshade' not in taken_a:
            u = draw(st.sampled_from(users))
            b['defs'].append({'k': 'alias', 'name': 'ZzTint', 'type': ('ref', c['name'], u['name']), 'doc': None, 'annots': []})
            a['defs'].append({'k': 'alias', 'name': 'ZzShade', 'type': ('alias', b['name'], 'ZzTint'), 'doc': None, 'annots': []})
    idx = M.Index(api)
    costs = values.Costs(idx)
    docs = {}
    for n, d in idx.types():
        t = ('ref', n, d['name'])
        if costs.texpr(t) >= values.Costs.INF:
            continue
        if d['k'] == 'struct' and not d.get('subtypes'):
            v = draw(values.value_for(idx, costs, t, fuel=1, omit_callers=frozenset()))
            if values.is_complete(v):
                docs[(n, d['name'])] = v
        elif d['k'] == 'union':
            vs = []
            for _ in range(2):
                v = draw(values.value_for(idx, costs, t, fuel=1, omit_callers=frozenset()))
                if values.is_complete(v):
                    vs.append((v[2], v))
            docs[(n, d['name'])] = vs
    return {'api': api, 'docs': docs}


def nontrivial(api):
    idx = M.Index(api)
    fs = gen.features(api)
    return bool(fs & {'xns_ref', 'xns_parent', 'enumerated_subtypes'}) or len(api['namespaces']) >= 2


def classify_import_error(msg, api):
    names = {d.get('name') for n in api['namespaces'] for d in n['defs']} | {n['name'] for n in api['namespaces']}
    m = re.search(r"(\w+) while importing .*?: (.*?) \| (.*)$", msg, re.S)
    if not m:
        return 'import'
    exc, text, line = m.group(1), m.group(2), m.group(3)

    def gen_name(mm):
        w = mm.group(0).strip("'")
        if re.fullmatch(r'[A-Za-z_][A-Za-z_0-9]*', w) and w not in names and w.replace('_validator', '') not in names:
            return "'%s'" % w        # a non-generated identifier (TagRef, datetime, ...) is part of the root cause
        return 'Q'
    text = re.sub(r"'[^']*'", gen_name, text)
    text = re.sub(r'\d+', 'N', text)
    text = re.sub(r'\([^)]*\.py, line N\)', '', text)
    return '%s:%s' % (exc, text[:70])


def run(case, rec):
    api = case['api']
    specs, _ = render.render(api)
    fs = gen.features(api)
    try:
        pkg = pygen.PyPkg(specs, import_now=False)
    except pygen.BuildFailure as e:
        rec.case(core.h64(repr(specs)), nontrivial(api), classes=['build:' + e.stage])
        if e.stage == 'frontend':
            rec.note('frontend_refused(judged by C01/C03)')
        else:
            rec.violation('C09|backend-crash|' + tb_text_sig(e.tb),
                          'python_types failed on an accepted spec: %s' % e.tb.strip().split('\n')[-1][:200],
                          case=case, human=specs)
        return
    try:
        surf = surface(api, case['docs'])
        # string attribute values as the compiler accepted them (the API description): how the lexer reads
        # a string literal is judged once, by C02
        for nsname, s_ in surf.items():
            irns = pkg.api.namespaces.get(nsname)
            for r_ in s_.get('routes', []):
                try:
                    irr = irns.routes_by_name[r_['name']].at_version[r_['version']]
                except Exception:
                    continue
                for k_, v_ in list(r_['attrs'].items()):
                    if isinstance(v_, str) and isinstance(irr.attrs.get(k_), str):
                        r_['attrs'][k_] = irr.attrs[k_]
            for st_ in s_.get('structs', []):
                try:
                    irf = {f_.name: f_ for f_ in irns.data_type_by_name[st_['name']].all_fields}
                except Exception:
                    continue
                for k_, dv_ in list(st_.get('defaults', {}).items()):
                    if isinstance(dv_, list) and len(dv_) == 2 and isinstance(dv_[1], str) and dv_[0] != 'tag' and \
                            k_ in irf and irf[k_].has_default and isinstance(irf[k_].default, str):
                        st_['defaults'][k_] = [dv_[0], irf[k_].default]
        order_all = [n['name'] for n in api['namespaces']]
        for i, first in enumerate(order_all):
            order = [first] + [x for x in order_all if x != first]
            job = {'repo': REPO, 'dir': pkg.tmp, 'pkg': pkg.pkg, 'order': order,
                   'surface': surf if i == 0 else {}}
            path = os.path.join(pkg.tmp, 'job_%d.json' % i)
            with open(path, 'w') as f:
                json.dump(job, f)
            env = dict(os.environ, PYTHONHASHSEED='0')
            pr = subprocess.run([sys.executable, SCRIPT, path], capture_output=True, text=True, env=env, timeout=300)
            rec.case(core.h64((repr(specs), first)), nontrivial(api),
                     classes=['first_import'] + (['full_surface'] if i == 0 else []) + sorted(fs & {'xns_ref', 'xns_parent', 'enumerated_subtypes', 'alias', 'route', 'default', 'tag_default'}),
                     sample=lambda: {'files': [(p, t[:400]) for p, t in specs[:2]], 'first_import': first})
            if '##RESULT##' not in pr.stdout:
                rec.violation('C09|interpreter-died|', 'introspection process died: %s' % (pr.stderr[-300:],),
                              case=case, human=specs)
                continue
            for kind, detail, msg in json.loads(pr.stdout.split('##RESULT##')[1]):
                if kind == 'import':
                    detail = classify_import_error(msg, api)
                rec.violation('C09|%s|%s' % (kind, detail), msg, case=case, human=specs)
    finally:
        pkg.close()


def parts(ctx):
    return [Part('surface', run, strategy=cases(), n=ctx.n(176, 3000), budget_s=ctx.n(150, 3000))]
