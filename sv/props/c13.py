"""C13 - omitted fields and redacted values never leak through serialization."""
import copy
import itertools
import json

from hypothesis import strategies as st

from .. import core, gen, pyrt, pygen, values, ref_json, model as M
from ..core import Part

RULE = ('generated specs with Omitted(c) / RedactedBlot / RedactedHash (with and without regex) on struct '
        'fields, union tags, patched and inherited fields and on aliases (used directly, nullable, in lists, '
        'as map values, nested) x values whose unconstrained string leaves carry unique sentinels x every '
        'subset of the declared caller permissions x redaction on/off. Oracles: (a) whole document equals a '
        'reference encoder with permissions and redaction written from the docs; (b) independently, the '
        'sentinel of every leaf hidden from the caller (omitted member, or redacted leaf when redaction is '
        'on) does not occur in the output text, and the sentinel of every visible unredacted leaf does; '
        '(c) strict decoding by P of the all-permissions document raises iff it contains a member P may '
        'not see. non-trivial = value with an annotated leaf reached through inheritance, patch, alias, '
        'list, map, nullable or a union; distinct by (type, value, subset, redact).')
ASSUMPTIONS = ['Redactors are only placed where the language allows them (string / numeric leaves, '
               'aliases of those, containers of those).']

C13_CFG = dict(omitted=True, annot_bias=True, redact_map_bias=True, schema=None, routes=True, max_ns=2, max_types=6,
               examples=False, custom_annotations=False, max_routes=2)


class Perm:
    def __init__(self, p):
        self._p = list(p)

    @property
    def permissions(self):
        return self._p


def plant(idx, t, v, counter):
    """Replace unconstrained string leaves by unique sentinels."""
    k = t[0]
    if v is None:
        return None
    if k == 'alias':
        return plant(idx, idx.get(t[1], t[2])['type'], v, counter)
    if k == 'nullable':
        return plant(idx, t[1], v, counter)
    if k == 'prim':
        if t[1] == 'String' and not M.pparams(t):
            counter[0] += 1
            return 'zq%dqz%s' % (counter[0], v[:3])
        return v
    if k == 'list':
        return [plant(idx, t[1], x, counter) for x in v]
    if k == 'map':
        return {key: plant(idx, t[2], x, counter) for key, x in v.items()}
    if v[0] == 'struct':
        ns, name = v[1]
        d = idx.get(ns, name)
        ft = {f['name']: f['type'] for _, _, f in idx.struct_all_fields(ns, d)}
        return ('struct', v[1], {n: plant(idx, ft[n], x, counter) for n, x in v[2].items()})
    ns, name = v[1]
    d = idx.get(ns, name)
    tg = [x for _, _, x in idx.union_all_tags(ns, d) if x['name'] == v[2]]
    if not tg or tg[0]['type'] is None:
        return v
    return ('union', v[1], v[2], plant(idx, tg[0]['type'], v[3], counter))


def leaves(idx, t, v, hidden_for=frozenset(), redacted=False, path=()):
    """(sentinel, callers that hide it, redacted?, path kinds) for every sentinel leaf."""
    from ..values import omitted_for
    k = t[0]
    if v is None:
        return []
    if k == 'alias':
        a = idx.get(t[1], t[2])
        red = redacted or ref_json.redactor_of(idx, a.get('annots')) is not None
        return leaves(idx, a['type'], v, hidden_for, red, path + ('alias',))
    if k == 'nullable':
        return leaves(idx, t[1], v, hidden_for, redacted, path + ('nullable',))
    if k == 'prim':
        if isinstance(v, str) and v.startswith('zq'):
            return [(v, hidden_for, redacted, path)]
        return []
    if k == 'list':
        return [x for i in v for x in leaves(idx, t[1], i, hidden_for, redacted, path + ('list',))]
    if k == 'map':
        return [x for i in v.values() for x in leaves(idx, t[2], i, hidden_for, redacted, path + ('map',))]
    if v[0] == 'struct':
        ns, name = v[1]
        d = idx.get(ns, name)
        out = []
        for fns, owner, f in idx.struct_all_fields(ns, d):
            if f['name'] not in v[2]:
                continue
            hf = hidden_for
            for a in f.get('annots') or []:
                ad = idx.get(a[0], a[1])
                if ad['atype'][1] == 'Omitted':
                    hf = hf | {ad['args'][0]}
            red = redacted or ref_json.redactor_of(idx, f.get('annots')) is not None
            p = path + (('inherited',) if owner is not d else ()) + \
                (('patched',) if owner.get('patch') and f in owner['fields'][len(owner['fields']) - owner['patch']:] else ()) + ('field',)
            out += leaves(idx, f['type'], v[2][f['name']], hf, red, p)
        return out
    ns, name = v[1]
    d = idx.get(ns, name)
    tg = [x for _, _, x in idx.union_all_tags(ns, d) if x['name'] == v[2]]
    if not tg or tg[0]['type'] is None or v[3] is None:
        return []
    hf = hidden_for
    for a in tg[0].get('annots') or []:
        ad = idx.get(a[0], a[1])
        if ad['atype'][1] == 'Omitted':
            hf = hf | {ad['args'][0]}
    red = redacted or ref_json.redactor_of(idx, tg[0].get('annots')) is not None
    return leaves(idx, tg[0]['type'], v[3], hf, red, path + ('union',))


def declared_callers(api):
    out = set()
    for n in api['namespaces']:
        for d in n['defs']:
            if d['k'] == 'annotation' and d['atype'][1] == 'Omitted':
                out.add(d['args'][0])
    return sorted(out)


@st.composite
def cases(draw):
    tv = draw(pyrt.typed_values(cfg_kw=C13_CFG, per_spec=(4, 8), omit_callers=None, bias_fn=annotated_members))
    return tv


def annotated_members(idx):
    """Fields and tags that carry an annotation themselves: values prefer to set / select them."""
    out = {'fields': set(), 'tags': set(), 'subtypes': set()}
    for n, d in idx.types():
        for m in d.get('fields', d.get('tags')):
            if m.get('annots'):
                out['fields' if d['k'] == 'struct' else 'tags'].add((n, d['name'], m['name']))
    return out


def run(case, rec):
    api = case['api']
    idx = M.Index(api)
    pkg, specs = pyrt.build(api, rec)
    if pkg is None:
        return
    ss, bv, bb = pygen.stone_runtime()
    callers = declared_callers(api)[:3]
    subsets = [frozenset(c) for r in range(len(callers) + 1) for c in itertools.combinations(callers, r)]
    try:
        for key, t, v0 in case['items']:
            counter = [0]
            v = plant(idx, t, v0, counter)
            one = {'api': api, 'items': [(key, t, v0)]}
            try:
                validator = pyrt.validator_for(pkg, key)
                obj = values.materialize(pkg, idx, t, v)
            except Exception as e:
                rec.note('materialize_failed:%s' % type(e).__name__)
                continue
            lv = leaves(idx, t, v)
            annotated = [x for x in lv if x[1] or x[2]]
            deep = any(set(x[3]) & {'inherited', 'patched', 'alias', 'list', 'map', 'nullable', 'union'} for x in annotated)
            human = {'files': specs, 'type': key, 'value': repr(v)[:1200]}

            def viol(kind, what, detail, extra=None):
                h = dict(human)
                h.update(extra or {})
                rec.violation('C13|%s|%s' % (kind, detail), what, case=one, human=h)
            full = frozenset(declared_callers(api))
            try:
                doc_all = ref_json.encode_p(idx, t, v, full, False)
            except ref_json.Refused:
                doc_all = None
            for P in subsets:
                for redact in (False, True):
                    label = 'P=%s redact=%s' % (sorted(P), redact)
                    rec.case(core.h64((M.freeze(key), repr(v), sorted(P), redact)), bool(annotated) and deep,
                             classes=['subset_size:%d' % len(P), 'redact' if redact else 'plain'] +
                             sorted({'placement:' + k for x in annotated for k in x[3]}),
                             sample=lambda: {'type': key, 'value': repr(v)[:300], 'permissions': sorted(P), 'redact': redact})
                    try:
                        exp = ref_json.encode_p(idx, t, v, P, redact)
                        refused = False
                    except ref_json.Refused:
                        exp, refused = None, True
                    except TypeError:
                        rec.note('reference_redactor_group_none')
                        continue
                    try:
                        got = ss.json_compat_obj_encode(validator, obj, caller_permissions=Perm(sorted(P)), should_redact=redact)
                        text = ss.json_encode(validator, obj, caller_permissions=Perm(sorted(P)), should_redact=redact)
                    except bv.ValidationError as e:
                        if not refused:
                            viol('encode-refused', 'encoding refused for %s: %s' % (label, e), 'redact' if redact else 'plain')
                        continue
                    except Exception as e:
                        viol('encode-raised', 'encoding raised %r for %s' % (e, label), core.stone_frame_sig(e))
                        continue
                    if refused:
                        viol('encoded-hidden-tag', 'a union tag omitted for the caller was encoded (%s): %s' % (label, text[:200]), '')
                        continue
                    # (b) independent leak oracle on the output text
                    for sent, hidden_for, red, path in lv:
                        hidden = bool(hidden_for - P)
                        present = json.dumps(sent)[1:-1] in text
                        pk = '/'.join(dict.fromkeys(path))
                        if hidden and present:
                            viol('leak-omitted', 'value of a member omitted for %s is in the output for %s: %s' % (
                                sorted(hidden_for - P), label, text[:300]), pk)
                        elif not hidden and red and redact and present:
                            viol('leak-redacted', 'clear text of a redacted value is in the output (%s): %s' % (label, text[:300]), pk)
                        elif not hidden and not redact and not present:
                            viol('visible-missing', 'a value the caller may see is missing from the output (%s): %s' % (label, text[:300]), pk)
                    # (a) document: without redaction the whole wire format; with redaction only the
                    # positions that carry a redactor (what happens elsewhere is not C13's claim)
                    if not redact:
                        if not ref_json.json_equal(json.loads(json.dumps(got)), json.loads(json.dumps(ref_json.unmark(exp)))):
                            viol('document-differs', 'output %s differs from the reference %s (%s)' % (
                                json.dumps(got)[:300], json.dumps(ref_json.unmark(exp))[:300], label), 'plain')
                    else:
                        r = ref_json.redacted_positions_differ(exp, json.loads(json.dumps(got)))
                        if r:
                            viol('redaction-wrong', 'a redacted value is not the blot mask / regex groups / hash (%s): %s' % (label, r),
                                 r.split(':')[0][-30:])
                # (c) strict decoding of the all-permissions document
                if doc_all is not None:
                    try:
                        mine = ref_json.unmark(ref_json.encode_p(idx, t, v, P, False))
                        sees_all = ref_json.json_equal(json.loads(json.dumps(mine)), json.loads(json.dumps(ref_json.unmark(doc_all))))
                    except ref_json.Refused:
                        sees_all = False
                    try:
                        ss.json_compat_obj_decode(validator, copy.deepcopy(ref_json.unmark(doc_all)), caller_permissions=Perm(sorted(P)), strict=True)
                        if not sees_all:
                            viol('strict-accepts-hidden', 'strict decoding with permissions %s accepted a document that '
                                 'supplies a member omitted for this caller: %s' % (sorted(P), json.dumps(ref_json.unmark(doc_all))[:300]), '')
                    except bv.ValidationError as e:
                        if sees_all:
                            viol('strict-rejects-visible', 'strict decoding with permissions %s rejected a document '
                                 'the caller may fully see: %s' % (sorted(P), e), '')
                    except Exception as e:
                        viol('decode-raised', 'decoding raised %r' % (e,), core.stone_frame_sig(e))
    finally:
        pkg.close()


def parts(ctx):
    return [Part('permissions', run, strategy=cases(), n=ctx.n(1200, 6000), budget_s=ctx.n(150, 3000))]
