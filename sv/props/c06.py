"""C06 - the decoder accepts exactly valid serializations and fails only by validation."""
import copy
import json

from hypothesis import strategies as st

from .. import core, gen, pyrt, pygen, values, ref_json, jsonmut, model as M
from ..core import Part

RULE = ('per generated spec: reference encodings of valid values, their documented alternative forms '
        '(explicit null for nullable fields, bare-string void tags), those documents after 1-2 structural '
        'mutations (replace by every other JSON kind, drop/add/rename key, push numbers and lengths '
        'across bounds, retag, wrap/unwrap, grow/shrink lists), a window of the exhaustive single-key edits of '
        'the pristine document (drop / rename / null each key, nested objects first) and arbitrary small JSON documents, x '
        '{strict, lenient} x {json_decode, json_compat_obj_decode}; oracle: (1) value or ValidationError, '
        'nothing else; (2) a three-valued reference validator written from docs/json_serializer.rst: '
        'ACCEPT => accepted with the expected value, REJECT => ValidationError, UNSPEC => only (1); '
        '(3) whatever is accepted re-encodes without error. non-trivial = mutated or arbitrary document '
        'judged ACCEPT/REJECT at nesting depth >= 1; distinct by (type, document) hash.')
ASSUMPTIONS = ['bool where a number is expected, integral floats for integers, non-canonical base64 / '
               'timestamps, null for an all-optional struct, explicit null for union members, `.tag` on '
               'plain structs and lenient-mode extra keys next to a valued tag are UNSPEC (not judged).']


@st.composite
def documents(draw, wild=False):
    tv = draw(pyrt.typed_values(per_spec=(4, 10), wild=wild))
    api = tv['api']
    idx = M.Index(api)
    items = []
    for key, t, v in tv['items']:
        base = ref_json.encode(idx, t, v)
        docs = [('pristine', base)]
        if isinstance(base, dict) and set(base) == {'.tag'} and draw(st.booleans()):
            docs.append(('bare-string', base['.tag']))
        for _ in range(draw(st.integers(2, 6))):
            j = base
            ops = []
            for _ in range(draw(st.integers(1, 2))):
                op, pos, pay = draw(jsonmut.mutation())
                j, applied = jsonmut.mutate(j, op, pos, pay)
                if applied:
                    ops.append(applied)
            if ops:
                docs.append(('+'.join(ops), j))
        if draw(st.integers(0, 2)) == 0:
            docs.append(('arbitrary', draw(jsonmut.arbitrary_json())))
        if draw(st.integers(0, 9)) < 7:
            # the exhaustive single-key edits of the pristine document: those that remove or null a
            # nested object (a struct- or union-valued member) first, then a window of the rest
            sweep = jsonmut.single_key_edits(base)
            if sweep:
                objs = [e for e in sweep if e[0].endswith(':object') and not e[0].startswith('rename')]
                rest = [e for e in sweep if e not in objs]
                docs += objs[:8]
                if rest:
                    at = draw(st.integers(0, len(rest) - 1))
                    docs += [rest[(at + k) % len(rest)] for k in range(min(len(rest), 10))]
        items.append((key, t, v, docs))
    return {'api': api, 'items': items}


def depth(j):
    if isinstance(j, dict):
        return 1 + max([depth(v) for v in j.values()] + [0])
    if isinstance(j, list):
        return 1 + max([depth(v) for v in j] + [0])
    return 0


def run(case, rec):
    api = case['api']
    idx = M.Index(api)
    pkg, specs = pyrt.build(api, rec)
    if pkg is None:
        return
    ss, bv, bb = pygen.stone_runtime()
    try:
        for key, t, v, docs in case['items']:
            try:
                validator = pyrt.validator_for(pkg, key)
            except Exception:
                rec.note('no_validator')
                continue
            for label, doc in docs:
                for strict in (True, False):
                    verdict, exp = ref_json.expect(ref_json.Ctx(idx, strict), t, doc)
                    one = {'api': api, 'items': [(key, t, v, [(label, doc)])]}
                    mode = 'strict' if strict else 'lenient'
                    rec.case(core.h64((M.freeze(key), json.dumps(doc, sort_keys=True, default=repr), strict)),
                             label != 'pristine' and verdict in 'AR' and depth(doc) >= 1,
                             classes=['verdict:' + verdict, 'doc:' + label.split('+')[0], mode],
                             sample=lambda: {'type': key, 'document': doc, 'strict': strict, 'verdict': verdict,
                                             'detail': exp if verdict != 'A' else None})

                    def viol(kind, what, detail=''):
                        rec.violation('C06|%s|%s' % (kind, detail),
                                      '%s [%s, type %r, document %s]' % (what, mode, key, json.dumps(doc, default=repr)[:300]),
                                      case=one, human={'files': specs, 'type': key, 'document': doc, 'strict': strict})
                    results = []
                    for how in ('obj', 'str'):
                        try:
                            if how == 'obj':
                                dec = ss.json_compat_obj_decode(validator, copy.deepcopy(doc), strict=strict)
                            else:
                                dec = ss.json_decode(validator, json.dumps(doc), strict=strict)
                            results.append((how, 'value', dec))
                        except bv.ValidationError as e:
                            results.append((how, 'rejected', e))
                        except Exception as e:
                            results.append((how, 'escape', e))
                            viol('escape', '%s escaped the decoder: %s' % (type(e).__name__, str(e)[:150]),
                                 core.stone_frame_sig(e))
                    for how, outcome, payload in results:
                        if outcome == 'escape':
                            continue
                        if verdict == 'A':
                            if outcome == 'rejected':
                                viol('rejected-valid', 'a valid serialization (%s) was rejected: %s' % (label, payload),
                                     label.split('+')[0])
                            else:
                                diff = values.same(idx, t, payload, exp)
                                if diff:
                                    viol('wrong-value', 'decoded value differs from the document: %s' % diff,
                                         pyrt.path_kind(diff))
                        elif verdict == 'R' and outcome == 'value':
                            viol('accepted-invalid', 'an invalid serialization was accepted (%s) and gave %r' % (
                                exp, payload), exp)
                        if outcome == 'value' and verdict != 'R':
                            try:
                                ss.json_compat_obj_encode(validator, payload)
                            except bv.ValidationError as e:
                                viol('returned-invalid-value', 'the decoder returned %r which its own validator refuses: %s' % (
                                    payload, e), verdict)
                            except Exception as e:
                                if not (isinstance(e, AssertionError) and 'serializable subtype' in str(e)):
                                    viol('returned-unencodable-value', 'decoded value cannot be re-encoded: %r' % (e,),
                                         core.stone_frame_sig(e))
                    if len(results) == 2 and results[0][1] != results[1][1] and 'escape' not in (results[0][1], results[1][1]):
                        viol('entry-points-differ', 'json_decode and json_compat_obj_decode disagree: %s vs %s' % (
                            results[0][1], results[1][1]))
    finally:
        pkg.close()


def parts(ctx):
    return [Part('documents', run, strategy=documents(), n=ctx.n(1000, 8000), budget_s=ctx.n(150, 3000)),
            Part('documents_wild', run, strategy=documents(wild=True), n=ctx.n(100, 1500), budget_s=ctx.n(60, 1500))]
