"""C07 - backwards-compatible spec changes keep old and new peers interoperable."""
import copy
import json

from hypothesis import strategies as st

from .. import core, gen, pyrt, pygen, render, values, ref_json, model as M
from ..core import Part
from ..model import prim

RULE = ('history: generated spec A, then 1-4 edits from the evolution guide\'s compatible list at random '
        'sites (add optional / defaulted field - also to structs used as union member, list element, map '
        'value, parent or subtype; add tag to an open union; give a Void tag a type; add a subtype under a '
        'catch-all struct; add a route; rename a type; introduce / inline an alias) giving B; both compiled '
        'and loaded side by side; values of B biased to the edited sites. Oracle: decode_A(encode_B(v), '
        'lenient) equals the A-view projection of v; strict decoding under A raises iff the message differs '
        'from the encoding of the projection (contains something A does not know); decode_B(encode_A(w)) '
        'equals w with new fields unset (skipping values through a tag B changed from Void to a '
        'non-nullable type). non-trivial = value exercises >=1 edit; distinct by (edit kinds, value). Every new defaulted field is also read on the new peer (declared default, ready union instance for a tag default); edits include union-typed fields with tag defaults and prefer the deepest unions of a chain.')
ASSUMPTIONS = ['Docs are left out of the specs (renames would have to rewrite doc references).',
               'The documented null / empty-struct ambiguity of nullable struct-valued members is normalised.']

C07_CFG = dict(omitted=False, schema=None, docs=False, annotations=False, examples=False, patches=False,
               max_ns=3, max_types=6, max_routes=2, union_chain_bias=True)

NEW_SNAKE = ['zz_new', 'zz_extra', 'zz_added', 'zz_more']


class Edits:
    def __init__(self, draw, api):
        self.draw = draw
        self.g = gen.G(draw)
        self.api = copy.deepcopy(api)
        self.idx = M.Index(self.api)
        self.kinds = []
        self.bias = {'fields': set(), 'tags': set(), 'subtypes': set()}
        self.ren = {}            # (ns, nameB) -> nameA
        self._void_to_required_defs = []   # (ns, union def, tag) changed from Void to a non-nullable type
        self.n = 0

    def fresh(self, base):
        self.n += 1
        return '%s%d' % (base, self.n)

    def family_names(self, ns, d):
        """member names used anywhere in the inheritance family of d (ancestors and descendants)."""
        idx = self.idx
        root_ns, root = idx.chain(ns, d)[0]
        names = set()
        stack = [(root_ns, root)]
        while stack:
            n, x = stack.pop()
            for m in x.get('fields', x.get('tags', [])):
                names.add(m['name'])
            if x.get('subtypes'):
                names |= {t for t, _ in x['subtypes']['items']}
            stack += idx.children(n, x['name'])
        return names

    def simple_type(self, ns):
        g = self.g
        users = [(n, d) for n in [ns['name']] + ns['imports'] for d in self.idx.ns[n]['defs'] if d['k'] in ('struct', 'union')]
        r = g.int(0, 9)
        if r < 5 or not users:
            return gen.gen_prim(g)
        n, d = g.choice(users)
        t = ('ref', n, d['name'])
        if r < 7:
            return t
        return g.choice([('list', t, None, None), ('map', prim('String'), t)])

    def apply(self):
        g = self.g
        ops = [self.add_field, self.add_field, self.add_tag, self.void_to_typed, self.add_subtype,
               self.add_route, self.rename, self.alias_intro, self.alias_inline]
        for _ in range(g.int(1, 4)):
            op = g.choice(ops)
            if op():
                self.kinds.append(op.__name__)
                self.idx = M.Index(self.api)
        return self

    def add_field(self):
        g = self.g
        structs = list(self.idx.types(('struct',)))
        if not structs:
            return False
        n, d = g.choice(structs)
        ns = self.idx.ns[n]
        name = self.fresh(g.choice(NEW_SNAKE))
        if name in self.family_names(n, d):
            return False
        t = self.simple_type(ns)
        f = {'name': name, 'type': t, 'doc': None, 'default': None, 'annots': []}
        # evolve_spec: a new field with a default is optional; for a union-typed field the default is a void tag
        unions = [(un, u) for un in [ns['name']] + ns['imports'] for u in self.idx.ns[un]['defs'] if u['k'] == 'union'
                  and any(tg['type'] is None for _, _, tg in self.idx.union_all_tags(un, u, False))]
        if unions and g.p(25):
            un, u = g.choice(unions)
            voids = [tg['name'] for _, _, tg in self.idx.union_all_tags(un, u, False) if tg['type'] is None]
            f['type'] = ('ref', un, u['name'])
            f['default'] = ('tag', g.choice(voids))
        elif t[0] == 'prim' and t[1] not in ('Bytes', 'Timestamp', 'Void') and g.p(50):
            from ..values import prim_value_strategy, to_spec_literal
            f['default'] = ('lit', to_spec_literal(t, self.draw(prim_value_strategy(t, for_spec=True))))
        else:
            f['type'] = ('nullable', t)
        d['fields'].insert(g.int(0, len(d['fields'])), f)
        self.bias['fields'].add((n, d['name'], name))
        return True

    def add_tag(self):
        g = self.g
        unions = [(n, d) for n, d in self.idx.types(('union',)) if self.idx.is_open(n, d)]
        if not unions:
            return False
        # the catch-all is inherited through every level: prefer the deepest unions
        depth = {(n_, d_['name']): len(self.idx.chain(n_, d_)) for n_, d_ in unions}
        top = max(depth.values())
        deepest = [(n_, d_) for n_, d_ in unions if depth[(n_, d_['name'])] == top and top >= 2]
        deep = [(n_, d_) for n_, d_ in unions if depth[(n_, d_['name'])] >= 2]
        n, d = g.choice(deepest if deepest and g.p(40) else deep if deep and g.p(50) else unions)
        name = self.fresh('zz_tag')
        if name in self.family_names(n, d):
            return False
        t = None if g.p(40) else self.simple_type(self.idx.ns[n])
        if t is not None and g.p(30):
            t = ('nullable', t)
        d['tags'].insert(g.int(0, len(d['tags'])), {'name': name, 'type': t, 'doc': None, 'annots': []})
        self.bias['tags'].add((n, d['name'], name))
        return True

    def void_to_typed(self):
        g = self.g
        sites = [(n, d, tg) for n, d in self.idx.types(('union',)) for tg in d['tags'] if tg['type'] is None]
        # a void tag used as a field default must stay void (test_struct_semantics)
        used = {(f['type'][1], f['type'][2], f['default'][1]) for _, s in self.idx.types(('struct',))
                for f in s['fields'] if f.get('default') and f['default'][0] == 'tag' and f['type'][0] == 'ref'}
        sites = [(n, d, tg) for n, d, tg in sites
                 if not any((un, u['name'], tg['name']) in used for un, u in self.descendants_and_self(n, d))]
        if not sites:
            return False
        n, d, tg = g.choice(sites)
        t = self.simple_type(self.idx.ns[n])
        if g.p(40):
            t = ('nullable', t)
        else:
            self._void_to_required_defs.append((n, d, tg['name']))
        tg['type'] = t
        self.bias['tags'].add((n, d['name'], tg['name']))
        return True

    def descendants_and_self(self, n, d):
        out = [(n, d)]
        stack = [(n, d)]
        while stack:
            a, x = stack.pop()
            for c in self.idx.children(a, x['name']):
                out.append(c)
                stack.append(c)
        return out

    def add_subtype(self):
        g = self.g
        roots = [(n, d) for n, d in self.idx.types(('struct',)) if d.get('subtypes') and not d['subtypes']['closed']]
        if not roots:
            return False
        n, d = g.choice(roots)
        ns = self.idx.ns[n]
        name = self.fresh('ZzSub')
        tag = self.fresh('zz_sub')
        taken = self.family_names(n, d)
        if tag in taken:
            return False
        fields = []
        for i in range(g.int(0, 2)):
            t = self.simple_type(ns)
            fields.append({'name': self.fresh('zz_sf'), 'type': t if g.p(50) else ('nullable', t), 'doc': None,
                           'default': None, 'annots': []})
        ns['defs'].append({'k': 'struct', 'name': name, 'parent': (n, d['name']), 'doc': None if fields else 'New.',
                           'fields': fields, 'subtypes': None, 'examples': [], 'patch': 0})
        d['subtypes']['items'].append((tag, name))
        self.bias['subtypes'].add((n, name))
        return True

    def add_route(self):
        ns = self.g.choice(self.api['namespaces'])
        ns['defs'].append({'k': 'route', 'name': self.fresh('zz_route'), 'version': 1, 'arg': M.VOID,
                           'result': M.VOID, 'error': M.VOID, 'doc': None, 'deprecated': None, 'attrs': {}})
        return True

    def rename(self):
        g = self.g
        cands = [(n, d) for n in self.api['namespaces'] for d in n['defs'] if d['k'] in ('struct', 'union', 'alias')]
        if not cands:
            return False
        n, d = g.choice(cands)
        old, new = d['name'], self.fresh('ZzRenamed')
        ns = n['name']

        def fix(t):
            if t is None:
                return None
            if t[0] in ('ref', 'alias'):
                return (t[0], t[1], new) if (t[1], t[2]) == (ns, old) else t
            if t[0] in ('nullable',):
                return ('nullable', fix(t[1]))
            if t[0] == 'list':
                return ('list', fix(t[1]), t[2], t[3])
            if t[0] == 'map':
                return ('map', fix(t[1]), fix(t[2]))
            return t
        for m in self.api['namespaces']:
            for x in m['defs']:
                if x['k'] == 'alias':
                    x['type'] = fix(x['type'])
                elif x['k'] in ('struct', 'union'):
                    if x.get('parent') == (ns, old):
                        x['parent'] = (ns, new)
                    for mem in x.get('fields', x.get('tags')):
                        mem['type'] = fix(mem['type'])
                    if x.get('subtypes') and m['name'] == ns:
                        x['subtypes']['items'] = [(t, new if k == old else k) for t, k in x['subtypes']['items']]
                elif x['k'] == 'route':
                    for pos in ('arg', 'result', 'error'):
                        x[pos] = fix(x[pos])
        d['name'] = new
        self.ren[(ns, new)] = self.ren.pop((ns, old), old)
        return True

    def alias_intro(self):
        g = self.g
        sites = [(n, d, f) for n, d in self.idx.types(('struct',)) for f in d['fields']
                 if f.get('default') is None and not self.idx.is_nullable(f['type']) and not f.get('annots')]
        if not sites:
            return False
        n, d, f = g.choice(sites)
        name = self.fresh('ZzAlias')
        self.idx.ns[n]['defs'].append({'k': 'alias', 'name': name, 'type': f['type'], 'doc': None, 'annots': []})
        f['type'] = ('alias', n, name)
        return True

    def alias_inline(self):
        g = self.g
        sites = [(n, d, f) for n, d in self.idx.types(('struct',)) for f in d['fields'] if f['type'][0] == 'alias']
        if not sites:
            return False
        n, d, f = g.choice(sites)
        tgt = self.idx.get(f['type'][1], f['type'][2])['type']
        # the alias target may reference names only visible from the alias' namespace
        if f['type'][1] != n:
            return False
        f['type'] = tgt
        return True


def a_name(ed_ren, ns, name):
    return ed_ren.get((ns, name), name)


def project(idxA, idxB, ren, t, v):
    """A-view of a B-value: unknown fields dropped, unknown tags -> other, unknown subtypes -> base
    struct, payloads of tags that are Void in A ignored.  Returns the A abstract value."""
    k = t[0]
    if v is None:
        return None
    if k == 'alias':
        return project(idxA, idxB, ren, idxB.get(t[1], t[2])['type'], v)
    if k == 'nullable':
        return project(idxA, idxB, ren, t[1], v)
    if k == 'prim':
        return v
    if k == 'list':
        return [project(idxA, idxB, ren, t[1], x) for x in v]
    if k == 'map':
        return {key: project(idxA, idxB, ren, t[2], x) for key, x in v.items()}
    if v[0] == 'struct':
        ns, name = v[1]
        an = a_name(ren, ns, name)
        dB = idxB.get(ns, name)
        if (ns, an) not in idxA.defs:
            # subtype unknown to A: "substitute the base struct in its place"
            rootB = idxB.get(*dB['parent'])
            an = a_name(ren, dB['parent'][0], rootB['name'])
            ns = dB['parent'][0]
        dA = idxA.get(ns, an)
        ftB = {f['name']: f['type'] for _, _, f in idxB.struct_all_fields(v[1][0], dB)}
        out = {}
        for _, _, f in idxA.struct_all_fields(ns, dA):
            if f['name'] in v[2]:
                pv = project(idxA, idxB, ren, ftB[f['name']], v[2][f['name']])
                if pv is None and idxA.is_nullable(f['type']):
                    continue
                out[f['name']] = pv
        return ('struct', (ns, an), out)
    ns, name = v[1]
    an = a_name(ren, ns, name)
    dA = idxA.get(ns, an)
    dB = idxB.get(ns, name)
    tagsA = {x['name']: x for _, _, x in idxA.union_all_tags(ns, dA)}
    tgB = [x for _, _, x in idxB.union_all_tags(ns, dB) if x['name'] == v[2]][0]
    if v[2] not in tagsA:
        return ('union', (ns, an), 'other', None)
    if tagsA[v[2]]['type'] is None or v[3] is None:
        return ('union', (ns, an), v[2], None)
    return ('union', (ns, an), v[2], project(idxA, idxB, ren, tgB['type'], v[3]))


def rename_to_b(idxA, ren_inv, t, v):
    """An A value expressed with B's names (A -> B direction)."""
    k = t[0]
    if v is None:
        return None
    if k == 'alias':
        return rename_to_b(idxA, ren_inv, idxA.get(t[1], t[2])['type'], v)
    if k == 'nullable':
        return rename_to_b(idxA, ren_inv, t[1], v)
    if k == 'prim':
        return v
    if k == 'list':
        return [rename_to_b(idxA, ren_inv, t[1], x) for x in v]
    if k == 'map':
        return {key: rename_to_b(idxA, ren_inv, t[2], x) for key, x in v.items()}
    if v[0] == 'struct':
        ns, name = v[1]
        d = idxA.get(ns, name)
        ft = {f['name']: f['type'] for _, _, f in idxA.struct_all_fields(ns, d)}
        return ('struct', (ns, ren_inv.get((ns, name), name)),
                {n: rename_to_b(idxA, ren_inv, ft[n], x) for n, x in v[2].items()})
    ns, name = v[1]
    d = idxA.get(ns, name)
    tg = [x for _, _, x in idxA.union_all_tags(ns, d) if x['name'] == v[2]][0]
    inner = None if tg['type'] is None or v[3] is None else rename_to_b(idxA, ren_inv, tg['type'], v[3])
    return ('union', (ns, ren_inv.get((ns, name), name)), v[2], inner)


def uses_tag(idx, t, v, tagset):
    k = t[0]
    if v is None:
        return False
    if k == 'alias':
        return uses_tag(idx, idx.get(t[1], t[2])['type'], v, tagset)
    if k == 'nullable':
        return uses_tag(idx, t[1], v, tagset)
    if k == 'prim':
        return False
    if k == 'list':
        return any(uses_tag(idx, t[1], x, tagset) for x in v)
    if k == 'map':
        return any(uses_tag(idx, t[2], x, tagset) for x in v.values())
    if v[0] == 'struct':
        ns, name = v[1]
        d = idx.get(ns, name)
        ft = {f['name']: f['type'] for _, _, f in idx.struct_all_fields(ns, d)}
        return any(uses_tag(idx, ft[n], x, tagset) for n, x in v[2].items())
    ns, name = v[1]
    d = idx.get(ns, name)
    owners = [(n_, u_['name'], x['name']) for n_, u_, x in idx.union_all_tags(ns, d) if x['name'] == v[2]]
    if any(o in tagset for o in owners):
        return True
    tg = [x for _, _, x in idx.union_all_tags(ns, d) if x['name'] == v[2]][0]
    return tg['type'] is not None and v[3] is not None and uses_tag(idx, tg['type'], v[3], tagset)


@st.composite
def histories(draw):
    apiA = draw(gen.api_models(gen.Cfg(**C07_CFG)))
    ed = Edits(draw, apiA).apply()
    apiB = ed.api
    idxA, idxB = M.Index(apiA), M.Index(apiB)
    costsA, costsB = values.Costs(idxA), values.Costs(idxB)
    ren_inv = {(ns, a): b for (ns, b), a in ed.ren.items()}
    itemsB, itemsA = [], []
    typesB = [(key, t) for key, t in pyrt.test_types(apiB)
              if key[0] == 'named' and (key[1], a_name(ed.ren, key[1], key[2])) in idxA.defs]
    for _ in range(draw(st.integers(6, 14)) if typesB else 0):
        key, t = draw(st.sampled_from(typesB))
        if costsB.texpr(t) >= values.Costs.INF:
            continue
        v = draw(values.value_for(idxB, costsB, t, fuel=draw(st.integers(1, 3)), bias=ed.bias))
        itemsB.append((key, t, v))
    typesA = [(key, t) for key, t in pyrt.test_types(apiA) if key[0] == 'named']
    for _ in range(draw(st.integers(3, 8)) if typesA else 0):
        key, t = draw(st.sampled_from(typesA))
        if costsA.texpr(t) >= values.Costs.INF:
            continue
        itemsA.append((key, t, draw(values.value_for(idxA, costsA, t, fuel=draw(st.integers(0, 2))))))
    # named as spec A names them (the union may have been renamed before or after the edit)
    void_to_required = {(n, a_name(ed.ren, n, d['name']), tag) for n, d, tag in ed._void_to_required_defs}
    return {'A': apiA, 'B': apiB, 'kinds': ed.kinds, 'ren': ed.ren, 'ren_inv': ren_inv,
            'void_to_required': void_to_required, 'itemsB': itemsB, 'itemsA': itemsA}


def exercises_edit(idxA, idxB, ren, t, v):
    """Does the value contain something A does not know (judged on the encodings)?"""
    return True


def run(case, rec):
    apiA, apiB = case['A'], case['B']
    idxA, idxB = M.Index(apiA), M.Index(apiB)
    pkgA, specsA = pyrt.build(apiA, rec)
    if pkgA is None:
        return
    pkgB, specsB = pyrt.build(apiB, rec)
    if pkgB is None:
        pkgA.close()
        rec.note('edited_spec_not_built:' + '+'.join(sorted(set(case['kinds']))))
        return
    ss, bv, bb = pygen.stone_runtime()
    kinds = '+'.join(sorted(set(case['kinds'])))
    try:
        # "the new fields at their defaults": what a B peer reads for a new field that an A message does
        # not carry is the declared default (a ready instance of the union for a tag default)
        for nB, dB in idxB.types(('struct',)):
            nameA = a_name(case['ren'], nB, dB['name'])
            if (nB, nameA) not in idxA.defs or idxA.get(nB, nameA)['k'] != 'struct':
                continue
            known = {f['name'] for f in idxA.get(nB, nameA)['fields']}
            for f in dB['fields']:
                if f['name'] in known or f.get('default') is None:
                    continue
                b = idxB.base(f['type'])
                if b[0] == 'prim' and b[1] in ('Bytes', 'Timestamp'):
                    continue
                if f['default'][0] == 'lit' and M.lexer_rewrites(f['default'][1]):
                    rec.note('default_literal_rewritten_by_lexer(judged by C02)')
                    continue
                rec.case(core.h64((kinds, 'default', nB, dB['name'], f['name'], repr(render.render(apiB)[0]))), True,
                         classes=['new_field_default:' + f['default'][0]])
                try:
                    got = getattr(pkgB.cls(nB, dB['name'])(), f['name'])
                    kind, dv = f['default']
                    if kind == 'tag':
                        ok = isinstance(got, bb.Union) and got._tag == dv and got._value is None
                    elif isinstance(dv, bool) or isinstance(got, bool):
                        ok = type(got) is bool and got == dv
                    elif isinstance(dv, (int, float)):
                        ok = isinstance(got, (int, float)) and float(got) == float(dv)
                    else:
                        ok = type(got) is type(dv) and got == dv
                    if not ok:
                        rec.violation('C07|new-field-default|%s' % kind,
                                      'a message of the old spec leaves the new field %s.%s.%s unset and the new peer reads %r '
                                      'instead of the declared default %r [edits: %s]' % (nB, dB['name'], f['name'], got, dv, kinds),
                                      case=dict(case, itemsB=[], itemsA=[]), human={'A': specsA, 'B': specsB, 'edits': case['kinds']})
                except Exception as e:
                    rec.violation('C07|new-field-default-raised|%s' % type(e).__name__,
                                  'reading the unset new field %s.%s.%s raised %r [edits: %s]' % (nB, dB['name'], f['name'], e, kinds),
                                  case=dict(case, itemsB=[], itemsA=[]), human={'A': specsA, 'B': specsB, 'edits': case['kinds']})
        for key, t, v in case['itemsB']:
            keyA = ('named', key[1], a_name(case['ren'], key[1], key[2]))
            tA = (t[0], key[1], keyA[2])
            one = dict(case, itemsB=[(key, t, v)], itemsA=[])
            human = {'A': specsA, 'B': specsB, 'edits': case['kinds'], 'type': key, 'value': repr(v)[:1200]}

            def viol(kind, what, detail):
                rec.violation('C07|%s|%s' % (kind, detail), what + ' [edits: %s]' % kinds, case=one, human=human)
            try:
                vB = pyrt.validator_for(pkgB, key)
                vA = pyrt.validator_for(pkgA, keyA)
                obj = values.materialize(pkgB, idxB, t, v)
                doc = ss.json_compat_obj_encode(vB, obj)
            except Exception as e:
                rec.note('b_value_not_encodable:%s' % type(e).__name__)
                continue
            pv = project(idxA, idxB, case['ren'], t, v)
            pv = values.norm_roundtrip(idxA, tA, pv)
            docA = ref_json.encode(idxA, tA, pv)
            knows_all = ref_json.json_equal(json.loads(json.dumps(doc)), json.loads(json.dumps(docA)))
            rec.case(core.h64((kinds, M.freeze(key), repr(v))), not knows_all,
                     classes=['edits:' + k for k in set(case['kinds'])] + ['b_to_a', 'a_knows_all' if knows_all else 'a_sees_news'],
                     sample=lambda: {'edits': case['kinds'], 'type': key, 'message': doc, 'a_view': repr(pv)[:300]})
            # lenient
            try:
                dec = ss.json_compat_obj_decode(vA, copy.deepcopy(doc), strict=False)
                diff = values.same(idxA, tA, dec, pv, empty_ok=True)
                if diff:
                    viol('lenient-view-differs', 'old peer decodes %s to something else than the A-view: %s' % (
                        json.dumps(doc)[:300], diff), pyrt.path_kind(diff) + '|' + kinds_of_diff(case))
            except bv.ValidationError as e:
                viol('lenient-rejects', 'old peer (lenient) rejects a message of the new spec: %s ; message %s' % (
                    e, json.dumps(doc)[:300]), ref_reason(str(e)) + '|' + kinds_of_diff(case))
            except Exception as e:
                viol('decode-raised', 'old peer raised %r' % (e,), core.stone_frame_sig(e))
            # strict
            try:
                dec = ss.json_compat_obj_decode(vA, copy.deepcopy(doc), strict=True)
                if not knows_all:
                    viol('strict-accepts-news', 'strict old peer accepted a message containing something it does '
                         'not know: %s (A-view encoding %s)' % (json.dumps(doc)[:300], json.dumps(docA)[:300]), kinds_of_diff(case))
                else:
                    diff = values.same(idxA, tA, dec, pv, empty_ok=True)
                    if diff:
                        viol('strict-view-differs', 'strict old peer decodes differently: %s' % diff, pyrt.path_kind(diff))
            except bv.ValidationError as e:
                if knows_all:
                    viol('strict-rejects-known', 'strict old peer rejected a message it fully knows: %s ; %s' % (
                        e, json.dumps(doc)[:300]), ref_reason(str(e)))
            except Exception as e:
                viol('decode-raised', 'old peer raised %r' % (e,), core.stone_frame_sig(e))
        # A -> B
        for key, t, w in case['itemsA']:
            nameB = case['ren_inv'].get((key[1], key[2]), key[2])
            keyB = ('named', key[1], nameB)
            if (key[1], nameB) not in idxB.defs:
                continue
            one = dict(case, itemsB=[], itemsA=[(key, t, w)])
            human = {'A': specsA, 'B': specsB, 'edits': case['kinds'], 'type': key, 'value': repr(w)[:1200]}
            if uses_tag(idxA, t, w, case['void_to_required']):
                rec.note('a_value_through_void_to_required_tag(not promised)')
                continue
            try:
                vA = pyrt.validator_for(pkgA, key)
                vB = pyrt.validator_for(pkgB, keyB)
                doc = ss.json_compat_obj_encode(vA, values.materialize(pkgA, idxA, t, w))
            except Exception as e:
                rec.note('a_value_not_encodable:%s' % type(e).__name__)
                continue
            wB = rename_to_b(idxA, case['ren_inv'], t, w)
            tB = (t[0], key[1], nameB)
            wB = values.norm_roundtrip(idxB, tB, wB)
            rec.case(core.h64((kinds, 'A', M.freeze(key), repr(w))), True, classes=['a_to_b'],
                     sample=lambda: {'edits': case['kinds'], 'type': key, 'message': doc})
            for strict in (True, False):
                try:
                    dec = ss.json_compat_obj_decode(vB, copy.deepcopy(doc), strict=strict)
                    diff = values.same(idxB, tB, dec, wB)
                    if diff:
                        rec.violation('C07|new-peer-differs|%s' % pyrt.path_kind(diff),
                                      'new peer decodes an old message differently: %s' % diff, case=one, human=human)
                except bv.ValidationError as e:
                    rec.violation('C07|new-peer-rejects|%s|%s' % (ref_reason(str(e)), kinds_of_diff(case)),
                                  'new peer (%s) rejects a message of the old spec: %s ; %s' % (
                                      'strict' if strict else 'lenient', e, json.dumps(doc)[:300]), case=one, human=human)
                except Exception as e:
                    rec.violation('C07|decode-raised|' + core.stone_frame_sig(e), 'new peer raised %r' % (e,), case=one, human=human)
    finally:
        pkgA.close()
        pkgB.close()


def kinds_of_diff(case):
    return ''      # edit combinations are reported in the message, not in the root-cause key


def ref_reason(msg):
    import re
    m = msg.split(': ')[-1]
    m = re.sub(r"'[^']*'|\"[^\"]*\"", 'Q', m)
    return re.sub(r'-?\d+(\.\d+)?', 'N', m)[:40]


def parts(ctx):
    return [Part('histories', run, strategy=histories(), n=ctx.n(1400, 12000), budget_s=ctx.n(150, 3000))]
