"""C18 - backends write only inside the output folder, verbatim, as the manifest says."""
import hashlib
import io
import itertools
import json
import os
import shutil
import sys
import tempfile
import textwrap

from hypothesis import strategies as st

from .. import core, front, gen, render, backends, model as M, REPO
from ..core import Part

RULE = ('paths (exhaustive): every relative path of depth <=4 over segments {a, d (existing dir), ., .., é, out_x (a sibling folder whose name starts with the name of the output folder)} '
        'in plain / trailing-slash / absolute form, through output_to_relative_path, copy_to_path and the '
        'Swift writer, in real and manifest mode, inside a sandbox whose whole parent directory is '
        'snapshotted before and after; oracle = lexical normalisation: outside => an exception and an '
        'unchanged tree, inside => exactly one new file at the normalised place (or a refusal that leaves '
        'the tree unchanged; plain paths must succeed), manifest mode writes nothing and reports the '
        'normalised relative path. emit: random scripts of emit / emit_raw / emit_wrapped_text / indent / '
        'block / generate_multiline_list / positional and named placeholders over arbitrary unicode text '
        'with braces and format-like sequences, for space- and tab-indenting backends; oracle = reference '
        'pretty-printer written from docs/backend_ref.rst and the docstrings (textwrap.fill is the documented '
        'wrapper), file bytes compared as UTF-8. manifest: every built-in backend configuration x generated '
        'specs, Compiler(output_manifest=True) and `stone.cli --output-manifest` versus the files a real '
        'run creates (and, for configurations without template files, a manifest run into an output folder '
        'that does not exist yet). non-trivial: all paths; scripts with a brace sequence inside >=2 nested contexts or a '
        'placeholder; specs with >=2 namespaces.')
ASSUMPTIONS = ['The -d/--documentation options of the Swift / Obj-C type backends (which deliberately address '
               '../../../../.jazzy.json) are not part of the option sets.']

SEGS = ['a', 'd', '.', '..', 'é', 'out_x']     # out_x: a sibling of the output folder `out` sharing its name as a prefix


# ---------------------------------------------------------------------------------------
# (a) paths

def snapshot(base):
    out = {}
    for root, _, files in os.walk(base):
        for f in files:
            p = os.path.join(root, f)
            with open(p, 'rb') as fh:
                out[os.path.relpath(p, base)] = hashlib.md5(fh.read()).hexdigest()
    return out


def path_enum(shard, nshards):
    n = 0
    for depth in range(1, 5):
        for segs in itertools.product(range(len(SEGS)), repeat=depth):
            for form in ('plain', 'slash', 'abs'):
                for writer in ('output', 'copy', 'swift'):
                    for manifest in (False, True):
                        if n % nshards == shard:
                            yield (segs, form, writer, manifest)
                        n += 1


def run_path(case, rec):
    from stone.backend import CodeBackend, OutputManifest
    from stone.backends.swift import SwiftBaseBackend
    segs, form, writer, manifest = case
    names = [SEGS[i] for i in segs]
    base = tempfile.mkdtemp(prefix='sv_c18_')
    try:
        root = os.path.join(base, 'out')
        os.makedirs(os.path.join(root, 'd'))
        os.makedirs(os.path.join(base, 'sibling'))
        os.makedirs(os.path.join(base, 'out_x'))
        with open(os.path.join(base, 'sibling', 'keep.txt'), 'w') as f:
            f.write('keep')
        src = os.path.join(base, 'src.txt')
        with open(src, 'w') as f:
            f.write('copied content')
        rel = '/'.join(names) + ('/' if form == 'slash' else '')
        if form == 'abs':
            rel = os.path.join(base, 'sibling', *names)

        class B(SwiftBaseBackend if writer == 'swift' else CodeBackend):
            preserve_aliases = True

            def generate(self, api):
                pass
        om = OutputManifest() if manifest else None
        b = B(root, [])
        b.output_manifest = om
        full = os.path.join(root, rel)
        target = os.path.normpath(full)
        if writer == 'copy' and os.path.isdir(full):
            target = os.path.normpath(os.path.join(full, os.path.basename(src)))
        is_root = target == root      # the folder itself: neither inside nor an escape (not judged)
        inside = not is_root and os.path.commonpath([root, target]) == root
        plain = inside and form == 'plain' and '..' not in names and names[-1] not in ('.', 'd') and \
            not (len(names) >= 2 and 'a' in names[:-1])
        if writer != 'output':
            # only output_to_relative_path is documented to create missing directories
            plain = plain and [s for s in names[:-1] if s != '.'] in ([], ['d'])
        before = snapshot(base)
        exc = None
        try:
            if writer == 'output':
                with b.output_to_relative_path(rel):
                    b.emit('payload {x}')
            elif writer == 'copy':
                b.copy_to_path(src, full)
            else:
                b._write_output_in_target_folder('payload {x}', rel)
        except BaseException as e:
            exc = e
        after = snapshot(base)
        changed = sorted(k for k in set(before) | set(after) if before.get(k) != after.get(k))
        human = {'path': rel if form != 'abs' else '<sandbox>/sibling/' + '/'.join(names), 'writer': writer,
                 'manifest': manifest, 'exception': repr(exc)[:200], 'changed': changed}
        seg_kind = '+'.join(sorted({'dotdot' if s == '..' else 'dot' if s == '.' else 'name' for s in names}))
        rec.case(case, True, classes=['writer:' + writer, 'form:' + form, 'inside' if inside else 'outside',
                                      'manifest' if manifest else 'real'],
                 sample=lambda: human)

        def viol(kind, what):
            rec.violation('C18|path|%s|%s|%s|%s' % (kind, writer, form, 'manifest' if manifest else 'real'),
                          what + ' ' + json.dumps(human, ensure_ascii=False), case=case, human=human)
        escaped = [c for c in changed if not c.startswith('out' + os.sep)]
        if escaped:
            viol('wrote-outside', 'a file outside the output folder was created or modified:')
        if manifest:
            if changed:
                viol('manifest-wrote', 'manifest mode touched the file system:')
            if is_root:
                return
            if not inside and exc is None:
                viol('outside-not-refused', 'a path outside the output folder was not refused:')
            if inside and exc is None:
                want = os.path.relpath(target, root).replace(os.sep, '/')
                if om.outputs() != [want]:
                    viol('manifest-path', 'manifest reports %r, expected [%r]:' % (om.outputs(), want))
            if plain and exc is not None:
                viol('plain-refused', 'a plain path inside the output folder was refused:')
            return
        if is_root:
            if changed:
                viol('root-path-changed-tree', 'addressing the output folder itself changed files:')
            return
        if not inside:
            if exc is None:
                viol('outside-not-refused', 'a path outside the output folder was not refused:')
            if changed:
                viol('outside-changed-tree', 'refusing an outside path still changed the tree:')
            return
        if exc is not None:
            if changed:
                viol('refused-but-wrote', 'the request failed but the tree changed:')
            if plain:
                viol('plain-refused', 'a plain path inside the output folder was refused:')
            return
        want = os.path.relpath(target, base)
        if changed != [want]:
            viol('wrong-place', 'expected exactly the file %r to appear:' % want)
        else:
            with open(target, 'rb') as fh:
                got = fh.read()
            exp = b'copied content' if writer == 'copy' else ('payload {x}\n' if writer == 'output' else 'payload {x}').encode()
            if got != exp:
                viol('wrong-content', 'file content %r, expected %r:' % (got, exp))
    finally:
        shutil.rmtree(base, ignore_errors=True)


# ---------------------------------------------------------------------------------------
# (b) emit scripts against a reference pretty-printer

TEXT = st.text(st.one_of(st.sampled_from(list('{}%s0x .:-\\\'"é数\t\r')), st.characters(codec='utf-8', exclude_categories=('Cs',),
                                                                                      exclude_characters='\n')), max_size=12)
SPECIALS = st.sampled_from(['{', '}', '{}', '{0}', '{x}', '{{', '}}', '%s', '%(a)s', '{0!r}', '{:>4}', 'a{b}c', '${x}'])
IDENT = st.sampled_from(['x', 'name', 'imports', 'a1'])


def text():
    return st.one_of(TEXT, SPECIALS, st.tuples(TEXT, SPECIALS, TEXT).map(''.join))


def short():
    return st.one_of(st.text(st.sampled_from(list('#/* {}>-é')), max_size=4), st.sampled_from(['# ', '// ', ' * ', '{', '}']))


def ops(depth):
    leaf = st.one_of(
        st.tuples(st.just('emit'), text()),
        st.tuples(st.just('emit_empty')),
        st.tuples(st.just('emit_raw'), st.lists(text(), max_size=3).map(lambda ls: ''.join(x + '\n' for x in ls))),
        # prefixes stay far below the width: textwrap degenerates when the indent exceeds it
        st.tuples(st.just('wrapped'), st.lists(text(), max_size=14).map(' '.join), short(), short(), short(),
                  st.sampled_from([40, 80, 120]), st.booleans(), st.booleans()),
        st.tuples(st.just('list'), st.lists(text(), max_size=4), text(), text(),
                  st.sampled_from([('(', ')'), ('[', ']'), ('{', '}'), ('', '')]), st.booleans(),
                  st.sampled_from([',', ';', '']), st.booleans()),
        st.tuples(st.just('pos_placeholder'), text()),
        st.tuples(st.just('named_placeholder'), IDENT, text()),
    )
    if depth <= 0:
        return st.lists(leaf, max_size=4)
    sub = ops(depth - 1)
    node = st.one_of(
        leaf, leaf,
        st.tuples(st.just('indent'), st.sampled_from([None, 0, 1, 2, 4]), sub),
        st.tuples(st.just('block'), text(), text(), st.sampled_from([('{', '}'), ('(', ')'), (None, None), ('[', None)]),
                  st.sampled_from([None, 2]), st.booleans(), sub),
    )
    return st.lists(node, max_size=5)


@st.composite
def scripts(draw):
    return {'tabs': draw(st.booleans()), 'ops': draw(ops(2))}


class Ref:
    """Reference pretty-printer (docs/backend_ref.rst, docstrings of stone.backend)."""

    def __init__(self, tabs):
        self.tabs = tabs
        self.ind = 0
        self.out = []

    def indent_str(self):
        return ('\t' if self.tabs else ' ') * self.ind

    def emit(self, s=''):
        self.out.append((self.indent_str() + s + '\n') if s else '\n')

    def run(self, script):
        for op in script:
            k = op[0]
            if k == 'emit':
                self.emit(op[1])
            elif k == 'emit_empty':
                self.emit()
            elif k == 'emit_raw':
                if op[1]:
                    self.out.append(op[1])
            elif k == 'wrapped':
                _, s, prefix, ip, sp, width, blw, boh = op
                p = self.indent_str() + prefix
                self.out.append(textwrap.fill(s, initial_indent=p + ip, subsequent_indent=p + sp, width=width,
                                              break_long_words=blw, break_on_hyphens=boh) + '\n')
            elif k == 'list':
                self.mlist(*op[1:])
            elif k == 'pos_placeholder':
                self.out.append(op[1])
            elif k == 'named_placeholder':
                self.out.append(('named', op[1]))
            elif k == 'indent':
                d = op[1] if op[1] is not None else (1 if self.tabs else 4)
                self.ind += d
                self.run(op[2])
                self.ind -= d
            elif k == 'block':
                _, before, after, delim, dent, allman, body = op
                if before and not allman:
                    self.emit('%s %s' % (before, delim[0]) if delim[0] is not None else before)
                else:
                    if before:
                        self.emit(before)
                    if delim[0] is not None:
                        self.emit(delim[0])
                d = dent if dent is not None else (1 if self.tabs else 4)
                self.ind += d
                self.run(body)
                self.ind -= d
                self.emit((delim[1] + after) if delim[1] is not None else after)

    def mlist(self, items, before, after, delim, compact, sep, skip_last_sep):
        if len(items) == 0:
            self.emit(before + delim[0] + delim[1] + after)
        elif len(items) == 1:
            self.emit(before + delim[0] + items[0] + delim[1] + after)
        elif compact:
            self.emit(before + delim[0] + items[0] + sep)
            extra = len(before) + len(delim[0])
            self.ind += extra
            for i, it in enumerate(items[1:]):
                self.emit(it + (delim[1] + after if i == len(items) - 2 else sep))
            self.ind -= extra
        else:
            if before or delim[0]:
                self.emit(before + delim[0])
            self.ind += 1 if self.tabs else 4
            for i, it in enumerate(items):
                self.emit(it if (i == len(items) - 1 and skip_last_sep) else it + sep)
            self.ind -= 1 if self.tabs else 4
            if delim[1] or after:
                self.emit(delim[1] + after)


def named_values(script, acc):
    for op in script:
        if op[0] == 'named_placeholder':
            acc[op[1]] = op[2]          # the last registration wins
        elif op[0] in ('indent',):
            named_values(op[2], acc)
        elif op[0] == 'block':
            named_values(op[6], acc)
    return acc


def script_stats(script, depth=0):
    """(has placeholder, max nesting depth at which a brace sequence occurs)"""
    ph, bd = False, -1
    for op in script:
        if op[0] in ('pos_placeholder', 'named_placeholder'):
            ph = True
        if op[0] in ('indent', 'block'):
            p2, b2 = script_stats(op[2] if op[0] == 'indent' else op[6], depth + 1)
            ph, bd = ph or p2, max(bd, b2)
        elif any(isinstance(x, str) and ('{' in x or '}' in x) for x in op[1:]) or \
                any(isinstance(x, list) and any('{' in y or '}' in y for y in x) for x in op[1:]):
            bd = max(bd, depth)
    return ph, bd


def run_script(case, rec):
    from stone.backend import CodeBackend
    ref = Ref(case['tabs'])
    ref.run(case['ops'])
    named = named_values(case['ops'], {})
    expected = ''.join(named[x[1]] if isinstance(x, tuple) else x for x in ref.out)

    class B(CodeBackend):
        tabs_for_indents = case['tabs']
        preserve_aliases = True

        def generate(self, api):
            pass

    def play(b, script):
        for op in script:
            k = op[0]
            if k == 'emit':
                b.emit(op[1])
            elif k == 'emit_empty':
                b.emit()
            elif k == 'emit_raw':
                if op[1]:
                    b.emit_raw(op[1])
            elif k == 'wrapped':
                b.emit_wrapped_text(op[1], prefix=op[2], initial_prefix=op[3], subsequent_prefix=op[4], width=op[5],
                                    break_long_words=op[6], break_on_hyphens=op[7])
            elif k == 'list':
                b.generate_multiline_list(op[1], before=op[2], after=op[3], delim=op[4], compact=op[5], sep=op[6],
                                          skip_last_sep=op[7])
            elif k == 'pos_placeholder':
                b.emit_placeholder()
                b.add_positional_placeholder(op[1])
            elif k == 'named_placeholder':
                b.emit_placeholder(op[1])
                b.add_named_placeholder(op[1], op[2])
            elif k == 'indent':
                with b.indent(op[1]):
                    play(b, op[2])
            elif k == 'block':
                with b.block(before=op[1], after=op[2], delim=op[3], dent=op[4], allman=op[5]):
                    play(b, op[6])
    d = tempfile.mkdtemp(prefix='sv_c18e_')
    ph, bd = script_stats(case['ops'])
    try:
        b = B(d, [])
        exc = None
        try:
            with b.output_to_relative_path('out.txt'):
                play(b, case['ops'])
        except Exception as e:
            exc = e
        rec.case(core.h64(repr(case)), ph or bd >= 2, classes=['tabs' if case['tabs'] else 'spaces'] +
                 (['placeholder'] if ph else []) + (['nested_braces'] if bd >= 2 else []),
                 sample=lambda: {'script': repr(case['ops'])[:600], 'tabs': case['tabs']})
        human = {'script': repr(case['ops'])[:3000], 'tabs': case['tabs']}
        if exc is not None:
            rec.violation('C18|emit|raised|' + core.stone_frame_sig(exc), 'the emit API raised %r' % (exc,), case=case, human=human)
            return
        with open(os.path.join(d, 'out.txt'), 'rb') as f:
            got = f.read()
        if got != expected.encode('utf-8'):
            g = got.decode('utf-8', 'replace')
            i = next((k for k in range(min(len(g), len(expected))) if g[k] != expected[k]), min(len(g), len(expected)))
            rec.violation('C18|emit|bytes-differ|' + first_diff_kind(case['ops'], expected, g, i),
                          'file differs from the reference pretty-printer at offset %d: got %r, expected %r' % (
                              i, g[max(0, i - 20):i + 30], expected[max(0, i - 20):i + 30]), case=case, human=human)
    finally:
        shutil.rmtree(d, ignore_errors=True)


def first_diff_kind(script, exp, got, i):
    window = (exp[max(0, i - 3):i + 3] + got[max(0, i - 3):i + 3])
    if '{' in window or '}' in window:
        return 'braces'
    if exp[i:i + 1] in (' ', '\t') or got[i:i + 1] in (' ', '\t'):
        return 'indentation'
    if exp[i:i + 1] == '\n' or got[i:i + 1] == '\n':
        return 'line-structure'
    return 'text'


# ---------------------------------------------------------------------------------------
# (c) manifest run versus real run

@st.composite
def manifest_cases(draw):
    api = draw(gen.api_models(gen.Cfg(schema='swift', max_ns=3, max_types=5, max_routes=3, route_io_any=False)))
    return {'api': api, 'cli': draw(st.integers(0, 5)) == 0, 'pick': draw(st.integers(0, 999))}


def run_manifest(case, rec):
    api = case['api']
    specs, _ = render.render(api)
    kind, _ = front.compile_specs(specs)
    if kind != 'api':
        rec.note('not_accepted(judged by C01/C03)')
        return
    names = backends.ALL
    for b in names:
        templates = set(backends.CONFIGS[b][2])
        base = tempfile.mkdtemp(prefix='sv_c18m_')
        try:
            real_dir, man_dir = os.path.join(base, 'real'), os.path.join(base, 'manifest')
            try:
                backends.run_backend(b, front.compile_specs(specs)[1], real_dir)
                real = sorted(k.replace(os.sep, '/') for k in backends.read_tree(real_dir, skip=templates))
                real_err = None
            except backends.BackendCrash as e:
                real, real_err = None, e.tb.strip().split('\n')[-1][:100]
            try:
                c = backends.run_backend(b, front.compile_specs(specs)[1], man_dir, manifest=True)
                man = c.output_manifest()
                man_err = None
            except backends.BackendCrash as e:
                man, man_err = None, e.tb.strip().split('\n')[-1][:100]
            written = sorted(k for k in backends.read_tree(man_dir, skip=templates)) if os.path.isdir(man_dir) else []
            rec.case(core.h64((repr(specs), b)), len(api['namespaces']) >= 2, classes=['manifest_backend:' + b],
                     sample=lambda: {'backend': b, 'manifest': man, 'files': [(p, t[:200]) for p, t in specs[:1]]})
            human = {'files': specs, 'backend': b, 'real': real, 'manifest': man, 'written_by_manifest_run': written}

            def viol(kind_, what):
                rec.violation('C18|manifest|%s|%s' % (kind_, b), what, case=case, human=human)
            if written:
                viol('manifest-run-wrote', 'a manifest run of %s created files: %s' % (b, written[:4]))
            if (real is None) != (man is None):
                viol('crash-differs', 'real run %s, manifest run %s' % (real_err or 'ok', man_err or 'ok'))
            elif real is not None and sorted(set(man) - templates) != real:
                viol('manifest-differs', 'manifest %s, real run created %s' % (
                    sorted(set(man) ^ set(real))[:5], 'the symmetric difference shown'))
            if not templates and real is not None and man is not None:
                # the same manifest run into an output folder that does not exist yet (seeded C18_10)
                fresh_dir = os.path.join(base, 'fresh', 'manifest')
                try:
                    man2 = backends.run_backend(b, front.compile_specs(specs)[1], fresh_dir, manifest=True,
                                                precreate=False).output_manifest()
                    rec.note('manifest_fresh_folder_runs')
                    if sorted(set(man2)) != real:
                        viol('manifest-differs-fresh-folder', 'manifest run into a folder that does not exist yet '
                             'reports %s, a real run created %s' % (sorted(set(man2))[:6], real[:6]))
                    if os.path.isdir(fresh_dir) and backends.read_tree(fresh_dir):
                        viol('manifest-run-wrote', 'a manifest run of %s into a fresh folder created files' % b)
                except backends.BackendCrash as e:
                    viol('crash-differs', 'real run ok, manifest run into a fresh folder %s' % e.tb.strip().split('\n')[-1][:100])
            if case['cli'] and real is not None and b == names[case['pick'] % len(names)]:
                cli_manifest(rec, specs, b, real, templates, viol)
        finally:
            shutil.rmtree(base, ignore_errors=True)


def cli_manifest(rec, specs, b, real, templates, viol):
    import subprocess
    modname, args, tpl, _ = backends.CONFIGS[b]
    d = tempfile.mkdtemp(prefix='sv_c18c_')
    try:
        paths = []
        for i, (p, t) in enumerate(specs):
            fp = os.path.join(d, '%d_%s' % (i, p))
            with open(fp, 'w', encoding='utf-8') as f:
                f.write(t)
            paths.append(fp)
        out = os.path.join(d, 'out')
        os.makedirs(out)
        for fn, text in tpl.items():
            with open(os.path.join(out, fn), 'w') as f:
                f.write(text)
        pr = subprocess.run([sys.executable, '-m', 'stone.cli', '--output-manifest', '-a', ':all', modname, out] + paths + ['--'] + list(args),
                            capture_output=True, text=True, env=dict(os.environ, PYTHONPATH=REPO), cwd=d, timeout=300)
        rec.note('cli_manifest_runs')
        try:
            listed = json.loads(pr.stdout)
        except ValueError:
            viol('cli-manifest-not-json', 'stone.cli --output-manifest printed %r (rc %s, stderr %r)' % (
                pr.stdout[:200], pr.returncode, pr.stderr[-200:]))
            return
        written = sorted(k for k in backends.read_tree(out, skip=set(tpl)))
        if written:
            viol('cli-manifest-run-wrote', 'stone.cli --output-manifest created files %s' % written[:4])
        if sorted(set(listed) - set(tpl)) != real:
            viol('cli-manifest-differs', 'stone.cli --output-manifest lists %s differently from a real run' % (
                sorted(set(listed) ^ set(real))[:5],))
    finally:
        shutil.rmtree(d, ignore_errors=True)


def parts(ctx):
    return [Part('paths', run_path, enumerate=path_enum, exhaustive=True),
            Part('emit', run_script, strategy=scripts(), n=ctx.n(3000, 100000), budget_s=ctx.n(100, 3000)),
            Part('manifest', run_manifest, strategy=manifest_cases(), n=ctx.n(40, 600), budget_s=ctx.n(150, 3000))]
