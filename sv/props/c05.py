"""C05 - encoded JSON is exactly the wire format of the serializer specification."""
from .. import pyrt
from ..core import Part
from . import c04

RULE = ('as C04 (generated spec x valid values); oracle: json.loads(json_encode(v)) and '
        'json_compat_obj_encode(v) equal, as JSON values, the output of a reference encoder written '
        'from docs/json_serializer.rst and driven by the model (no stone code); every value that holds '
        'timestamps is encoded a second time with them given as timezone-aware UTC datetimes; non-trivial = value '
        'through a union, subtype or container; distinct by (type, value) hash.')
ASSUMPTIONS = ['Object key order is not judged; numbers are compared numerically.',
               'A struct that is a listed subtype but is referenced by its own name is expected without .tag.']


def run(case, rec):
    c04.roundtrip(case, rec, 'C05')


def parts(ctx):
    return [Part('wire', run, strategy=pyrt.typed_values(subclass=True), n=ctx.n(1280, 8000), budget_s=ctx.n(120, 3000)),
            Part('wire_wild', run, strategy=pyrt.typed_values(wild=True, subclass=True), n=ctx.n(320, 2000), budget_s=ctx.n(60, 1500))]
