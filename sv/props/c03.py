"""C03 - compilation of arbitrary text ends in an API description or a spec error."""
import itertools
import os
import re
import subprocess
import sys
import tempfile

from hypothesis import strategies as st

from .. import core, front, gen, render, textmut, REPO
from ..core import Part

RULE = ('mutate: valid rendered specs hit by 1-3 token-level edits (delete/duplicate/swap/replace/'
        'insert token, literal kind, indentation shift, truncate, stray character, line dup/del, '
        'splice of two specs; and meaning-level edits: rename an identifier to another one of the file, append a '
        'default, wrap a type in List / Map / ? / arguments, add a doc reference of any kind to any name, '
        'replace the value after `=`, make aliases refer to themselves through containers); non-trivial = text differs from the original and gets past the lexer; '
        'distinct by text hash. short: every string over a 28-token alphabet up to the tier length '
        'after a `namespace x` header (exhaustive; fast pre-filter re-validated through specs_to_ir). '
        'inject: the C01 rule-violation corpus. langref: literal blocks of docs/lang_ref.rst. '
        'cli: python -m stone.cli on a sample.')
TECHNIQUE = ('property-based testing (Hypothesis) plus exhaustive enumeration of short token strings; thorough tier adds '
             'coverage-guided fuzzing (Atheris / libFuzzer) of the frontend with the oracle inside the target')
ASSUMPTIONS = ['A 20 s alarm (re-confirmed at 60 s) stands for non-termination.',
               'The short-string pre-filter reuses one ParserFactory (documented get_parser() reuse) '
               'with error lists reset by the harness; every candidate is re-validated through the '
               'real specs_to_ir and a 2% sample is cross-checked for drift.']
LEXER_MSGS = ('Illegal character', 'Indent is not divisible by 4', 'Line continuation must')

SMALL = gen.Cfg(max_ns=2, max_types=4, max_fields=3, max_routes=2, type_depth=2)


def judge(specs, rec, human=None, note=None):
    """Returns the outcome kind; records violations."""
    paths = [p for p, _ in specs]
    kind, payload = front.compile_specs(specs, timeout=20)
    if kind == 'hang':
        kind, payload = front.compile_specs(specs, timeout=60)
        if kind == 'hang':
            rec.violation('C03|hang', 'specs_to_ir did not terminate within 60 s',
                          case={'variants': [specs]}, human=human or specs)
            return 'hang', None
    if kind == 'escape':
        sig = 'C03|escape|' + core.stone_frame_sig(payload)
        rec.violation(sig, '%s escaped specs_to_ir: %s' % (type(payload).__name__, str(payload)[:200]),
                      case={'variants': [specs]}, human=human or specs)
    elif kind == 'invalid':
        for b in front.check_invalid_shape(payload, paths):
            rec.violation('C03|shape|' + b.split(' ')[0], 'InvalidSpec malformed: %s (%r)' % (b, payload),
                          case={'variants': [specs]}, human=human or specs)
    return kind, payload


def reduce_case(case, sig):
    """Delta-debug the failing variant down to a few lines with the same root-cause signature."""
    from .. import ddmin
    specs = case['variants'][0]

    def pred(sp):
        rec = core.Recorder()
        judge(list(sp), rec)
        return sig in rec.violations
    if not pred(specs):
        return case
    return {'variants': [ddmin.reduce_specs(specs, pred)]}


@st.composite
def mutated(draw):
    api = draw(gen.api_models(SMALL))
    lay = draw(render.layouts(api)) if draw(st.booleans()) else None
    specs, _ = render.render(api, lay)
    variants = []
    for _ in range(draw(st.integers(3, 6))):
        eds = draw(st.lists(textmut.edits(), min_size=1, max_size=3))
        which = draw(st.integers(0, len(specs) - 1))
        new = list(specs)
        text = new[which][1]
        for e in eds:
            text = textmut.apply_edit(text, e)
        new[which] = (new[which][0], text)
        variants.append(new)
    if len(specs) > 1 and draw(st.booleans()):
        a, b = draw(st.integers(0, len(specs) - 1)), draw(st.integers(0, len(specs) - 1))
        text = textmut.splice(specs[a][1], specs[b][1], draw(st.integers(0, 60)), draw(st.integers(0, 60)))
        new = list(specs)
        new[a] = (new[a][0], text)
        variants.append(new)
    return {'orig': specs, 'variants': variants}


def accepts_variants(fn):
    """Replay files of every part carry the concrete texts ({'variants': [specs]})."""
    def wrapper(case, rec):
        if isinstance(case, dict) and 'variants' in case and 'api' not in case and 'rule' not in case:
            return run_variants(case, rec)
        return fn(case, rec)
    return wrapper


def run_variants(case, rec):
    orig = case.get('orig')
    for specs in case['variants']:
        kind, payload = judge(specs, rec)
        changed = orig is None or specs != orig
        past_lexer = not (kind == 'invalid' and payload.msg.startswith(LEXER_MSGS))
        rec.case(core.h64(repr(specs)), changed and past_lexer,
                 classes=['outcome:' + kind] + (['past_lexer'] if past_lexer else []),
                 sample=lambda: {'files': specs[:2], 'outcome': kind})
        if kind == 'api':
            rec.note('accepted_after_mutation')


# -- exhaustive short token strings ---------------------------------------------------------

class Fast:
    """specs_to_ir's body with one ParserFactory reused (pre-filter only)."""

    def __init__(self):
        from stone.frontend.parser import ParserFactory
        from stone.frontend.ir_generator import IRGenerator
        from stone.frontend.exception import InvalidSpec
        self.pf = ParserFactory()
        self.IRGenerator = IRGenerator
        self.InvalidSpec = InvalidSpec

    def outcome(self, text):
        pf = self.pf
        pf.errors = []
        pf.lexer.errors = []
        try:
            parser = pf.get_parser()
            ast = parser.parse(text, 's.stone')
            if parser.got_errors_parsing():
                return 'invalid'
            asts = [ast] if len(ast) else []
            self.IRGenerator(asts, '0.1b1').generate_IR()
            return 'api'
        except self.InvalidSpec:
            return 'invalid'
        except Exception:
            # ply keeps parser state on exceptions in actions: rebuild to stay faithful
            from stone.frontend.parser import ParserFactory
            self.pf = ParserFactory()
            return 'escape'


def short_enum(max_len, alphabet):
    def enum(shard, nshards):
        n = len(alphabet)
        i = 0
        for length in range(0, max_len + 1):
            for idxs in itertools.product(range(n), repeat=length):
                if i % nshards == shard:
                    yield idxs
                i += 1
    return enum


_fast = None


def make_run_short(alphabet):
    @accepts_variants
    def run_short(idxs, rec):
        global _fast
        if _fast is None:
            _fast = Fast()
        text = textmut.short_string(idxs, alphabet)
        out = _fast.outcome(text)
        key = hash(idxs)
        sample_check = key % 50 == 0
        if out == 'escape' or sample_check:
            specs = [('s.stone', text)]
            kind, _ = judge(specs, rec)
            if sample_check and kind != out and not (out == 'escape'):
                raise core.HarnessError('pre-filter drift on %r: fast=%s real=%s' % (text, out, kind))
            out = kind
        rec.case(repr(idxs), len(idxs) >= 2, classes=['len%d' % len(idxs), 'outcome:' + out],
                 sample=lambda: {'text': text, 'outcome': out})
    return run_short


# -- lang_ref snippets -----------------------------------------------------------------------

def langref_snippets():
    path = os.path.join(REPO, 'docs', 'lang_ref.rst')
    with open(path, encoding='utf-8') as f:
        lines = f.read().split('\n')
    blocks = []
    i = 0
    while i < len(lines):
        if lines[i].rstrip().endswith('::'):
            j = i + 1
            while j < len(lines) and not lines[j].strip():
                j += 1
            blk = []
            while j < len(lines) and (lines[j].startswith('    ') or lines[j].startswith('   ') or not lines[j].strip()):
                blk.append(lines[j])
                j += 1
            if blk:
                ind = min(len(b) - len(b.lstrip()) for b in blk if b.strip())
                blocks.append('\n'.join(b[ind:] for b in blk).rstrip() + '\n')
            i = j
        else:
            i += 1
    return blocks


def langref_enum(shard, nshards):
    blocks = langref_snippets()
    cases = []
    for b in blocks:
        cases.append([('snippet.stone', b)])
        if not b.lstrip().startswith('namespace'):
            cases.append([('snippet.stone', 'namespace snippet\n\n' + b)])
    # pairs of consecutive snippets as two files
    for a, b in zip(blocks, blocks[1:]):
        cases.append([('a.stone', a if a.lstrip().startswith('namespace') else 'namespace sa\n' + a),
                      ('b.stone', b if b.lstrip().startswith('namespace') else 'namespace sb\n' + b)])
    for i, c in enumerate(cases):
        if i % nshards == shard:
            yield {'variants': [c]}


# -- command line ------------------------------------------------------------------------------

CLI_RE = re.compile(r'^(.*?):(\d+|None): error: .+', re.S)


def run_cli(case, rec):
    for specs in case['variants']:
        kind, payload = front.compile_specs(specs)
        if kind not in ('invalid', 'api'):
            continue
        d = tempfile.mkdtemp(prefix='sv_c03_')
        try:
            paths = []
            for i, (p, text) in enumerate(specs):
                fp = os.path.join(d, '%d_%s' % (i, os.path.basename(p)))
                with open(fp, 'w', encoding='utf-8') as f:
                    f.write(text)
                paths.append(fp)
            env = dict(os.environ, PYTHONPATH=REPO)
            pr = subprocess.run([sys.executable, '-m', 'stone.cli', 'js_types', os.path.join(d, 'out')] + paths +
                                ['--', 'types.js'],
                                capture_output=True, text=True, env=env, cwd=d, timeout=120)
            err = pr.stderr.strip()
            if kind == 'invalid':
                ok = pr.returncode == 1 and CLI_RE.match(err.split('\n')[0] if err else '')
                named = CLI_RE.match(err).group(1) if ok else None
                if ok and named not in ('None',) and named not in paths:
                    ok = False
                if not ok:
                    rec.violation('C03|cli|bad-answer', 'stone.cli answered a bad spec with rc=%s stderr=%r' % (
                        pr.returncode, err[:300]), case={'variants': [specs]}, human=specs)
            rec.case(core.h64(repr(specs)), kind == 'invalid', classes=['cli:' + kind],
                     sample=lambda: {'files': specs[:1], 'rc': pr.returncode, 'stderr': err[:200]})
        finally:
            import shutil
            shutil.rmtree(d, ignore_errors=True)


@st.composite
def cli_cases(draw):
    m = draw(mutated())
    return {'variants': m['variants'][:2]}


@accepts_variants
def run_valid(case, rec):
    specs, _ = render.render(case['api'], case['layout'])
    kind, _ = judge(specs, rec)
    rec.case(core.h64(repr(specs)), True, classes=['valid_outcome:' + kind],
             sample=lambda: {'files': [(p, t[:400]) for p, t in specs[:1]], 'outcome': kind})


# -- coverage-guided campaign (atheris / libFuzzer, tooling interpreter) -------------------------

FUZZ_TARGET = os.path.join(os.path.dirname(os.path.dirname(os.path.abspath(__file__))), 'fuzz_frontend.py')
FUZZ_PY = '/opt/veriftools/pyvenv/bin/python'
_fuzz_dir = {}


def fuzz_enum(ctx, slices, runs):
    def enum(shard, nshards):
        for i in range(slices):
            yield {'fuzz_shard': shard, 'slice': i, 'last': i == slices - 1, 'runs': runs,
                   'seed': core.derive_seed('C03', 'atheris', ctx.seed, shard) % (2 ** 31 - 1) + 1}
    return enum


@accepts_variants
def run_fuzz(case, rec):
    """One slice of one libFuzzer process; the corpus directory lives as long as the shard.  Even
    shards start from an empty corpus, odd shards from the language reference's snippets."""
    import json
    import shutil
    shard = case['fuzz_shard']
    d = _fuzz_dir.get(shard)
    if d is None:
        d = _fuzz_dir[shard] = tempfile.mkdtemp(prefix='sv_c03_fuzz_')
        os.makedirs(os.path.join(d, 'corpus'))
        if shard % 2:
            for i, b in enumerate(langref_snippets()):
                text = b if b.lstrip().startswith('namespace') else 'namespace snippet\n\n' + b
                with open(os.path.join(d, 'corpus', 'seed_%03d' % i), 'wb') as f:
                    f.write(b'\x00' + text.encode('utf-8'))
    out = os.path.join(d, 'out_%d' % case['slice'])
    os.makedirs(out)
    try:
        pr = subprocess.run([FUZZ_PY, FUZZ_TARGET, out, REPO, '-runs=%d' % case['runs'],
                             '-seed=%d' % (case['seed'] + case['slice']), '-max_len=400', '-timeout=60',
                             '-max_total_time=300', '-print_final_stats=0', os.path.join(d, 'corpus')],
                            capture_output=True, text=True, timeout=400,
                            env=dict(os.environ, PYTHONPATH='', PYTHONHASHSEED='0'))
        try:
            with open(os.path.join(out, 'stats.json')) as f:
                stats = json.load(f)
        except (OSError, ValueError):
            raise core.HarnessError('fuzz target produced no statistics (rc %s): %s' %
                                    (pr.returncode, (pr.stderr or pr.stdout)[-400:]))
        execs = stats.get('execs', 0)
        for k in ('api', 'invalid', 'lexer_or_parser_rejected', 'escape', 'hang', 'past_parser',
                  'token_mode', 'two_files'):
            rec.note('atheris_' + k, stats.get(k, 0))
        rec.note('atheris_execs', execs)
        rec.note('atheris_corpus_files', len(os.listdir(os.path.join(d, 'corpus'))))
        # executions count as evaluations; the non-trivial ones (got past the parser) are
        # reported as a count only: their texts are not kept
        rec.evaluations += execs
        rec.classes['atheris:execs'] += execs
        rec.classes['atheris:past_parser'] += stats.get('past_parser', 0)
        for fn in sorted(os.listdir(out)):
            if not fn.startswith('finding_'):
                continue
            with open(os.path.join(out, fn)) as f:
                fd = json.load(f)
            specs = [tuple(x) for x in fd['specs']]
            # re-validate through the real specs_to_ir in this interpreter; the signature comes
            # from here so that known findings and replays are shared with the other parts
            kind, _ = judge(specs, rec)
            rec.case(core.h64(repr(specs)), True, classes=['atheris:finding:' + kind],
                     sample=lambda: {'files': specs[:2], 'outcome': kind, 'fuzzer_key': fd['key']})
            if kind not in ('escape', 'hang') and fd['kind'] in ('escape', 'hang'):
                rec.note('atheris_finding_not_reproduced_by_specs_to_ir')
    finally:
        shutil.rmtree(out, ignore_errors=True)
        if case['last']:
            shutil.rmtree(d, ignore_errors=True)
            _fuzz_dir.pop(shard, None)


def parts(ctx):
    ps = [
        Part('valid', run_valid, strategy=gen.frontend_cases(), n=ctx.n(800, 10000), reduce=reduce_case,
             budget_s=ctx.n(100, 1200)),
        Part('mutate', run_variants, strategy=mutated(), n=ctx.n(2400, 30000), reduce=reduce_case,
             budget_s=ctx.n(100, 1200)),
        Part('short', make_run_short(textmut.SHORT_ALPHABET),
             enumerate=short_enum(ctx.n(3, 5), textmut.SHORT_ALPHABET), exhaustive=True, reduce=reduce_case),
        Part('langref', run_variants, enumerate=langref_enum, exhaustive=True, shards=4, reduce=reduce_case),
        Part('cli', run_cli, strategy=cli_cases(), n=ctx.n(32, 400), budget_s=ctx.n(100, 1200)),
    ]
    if not ctx.quick:
        ps.append(Part('short_core6', make_run_short(textmut.CORE_ALPHABET),
                       enumerate=short_enum(6, textmut.CORE_ALPHABET), exhaustive=True))
        if os.path.exists(FUZZ_PY):
            ps.append(Part('atheris', run_fuzz, enumerate=fuzz_enum(ctx, 4, 100000), reduce=reduce_case))
        elif not any('atheris' in a for a in ASSUMPTIONS):
            ASSUMPTIONS.append('atheris part skipped: %s is absent' % FUZZ_PY)
    from . import c01
    ps.append(Part('inject', accepts_variants(c01.run_inject_for_c03), strategy=c01.injected(), n=ctx.n(12000, 60000),
                   budget_s=ctx.n(100, 1200), reduce=reduce_case))
    return ps


def floors(ctx, classes, evaluations, notes):
    msgs = []
    if classes.get('past_lexer', 0) < 1000:
        msgs.append('too few mutants get past the lexer: %d' % classes.get('past_lexer', 0))
    return msgs
