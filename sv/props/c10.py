"""C10 - defaults and examples the compiler accepts are valid for the generated runtime."""
import copy
import json

from hypothesis import strategies as st

from .. import core, gen, pyrt, pygen, render, ref_json, front, model as M
from ..core import Part

RULE = ('generated specs with defaults on every defaultable type (boundary literals, ints for floats, '
        'tag refs across namespaces, strings against patterns, Bytes/Timestamp literals) and examples on '
        'every type shape (nested references, lists / maps of references, null for nullable, inherited '
        'fields, subtypes, unions of structs); up to 3 literals per spec are only nearly right and the '
        'compiler itself filters (refused specs are discarded and counted). Oracle: every accepted default '
        'is accepted by the generated class and a never-set field reads exactly it; every get_examples() '
        'entry except the implicit catch-all one decodes strictly and re-encodes to the same document. '
        'non-trivial = spec has a bounded / pattern default or an example with a reference or container; '
        'distinct by (spec, item) hash.')
ASSUMPTIONS = ['For Bytes / Timestamp defaults only acceptance of the exposed default is judged '
               '(the Python value a string literal denotes is not documented).']

C10_CFG = dict(alias_tag_defaults=True, alias_nesting_bias=True, omitted=False, schema='plain', union_struct_bias=True, max_ns=3, max_types=6, max_routes=2, examples=True,
               bytes_ts_defaults=True, risky_literals=3)


@st.composite
def cases(draw):
    kw = dict(C10_CFG)
    if draw(st.booleans()):
        kw['risky_literals'] = 0
    api = draw(gen.api_models(gen.Cfg(**kw)))
    return {'api': api}


def run(case, rec):
    api = case['api']
    idx = M.Index(api)
    specs, _ = render.render(api)
    kind, payload = front.compile_specs(specs)
    fs = gen.features(api)
    if kind != 'api':
        rec.case(core.h64(repr(specs)), False, classes=['discarded:' + kind])
        return
    try:
        pkg = pygen.PyPkg(specs, api=payload)
    except pygen.BuildFailure as e:
        rec.case(core.h64(repr(specs)), False, classes=['build_failed:' + e.stage])
        rec.note('build_failed(judged by C09):%s' % type(e.exc).__name__)
        return
    ss, bv, bb = pygen.stone_runtime()
    try:
        for nsname, ns in payload.namespaces.items():
            for dt in ns.data_types:
                mdef = idx.get(nsname, dt.name)
                cls = pkg.cls(nsname, dt.name)
                validator = pkg.validator(nsname, dt.name)

                def viol(kind_, what, detail, item):
                    rec.violation('C10|%s|%s' % (kind_, detail), '%s [%s.%s %s]' % (what, nsname, dt.name, item),
                                  case=case, human={'files': specs, 'type': '%s.%s' % (nsname, dt.name), 'item': item})
                if mdef['k'] == 'struct':
                    for f in dt.fields:
                        if not f.has_default:
                            continue
                        mf = [x for x in mdef['fields'] if x['name'] == f.name][0]
                        b = idx.base(mf['type'])
                        tkind = b[1] if b[0] == 'prim' else 'union'
                        nontriv = b[0] != 'prim' or bool(M.pparams(b))
                        rec.case(core.h64((repr(specs), nsname, dt.name, f.name)), nontriv,
                                 classes=['default:' + tkind],
                                 sample=lambda: {'field': '%s.%s.%s' % (nsname, dt.name, f.name),
                                                 'type': render.fmt_type(mf['type'], nsname), 'default': repr(mf['default'])})
                        try:
                            inst = cls()
                            got = getattr(inst, f.name)
                        except Exception as e:
                            viol('default-unreadable', 'reading the never-set field raised %r' % (e,), tkind, f.name)
                            continue
                        # the declared default as the compiler accepted it (the API description);
                        # its faithfulness to the spec text is C02's business
                        if mf['default'][0] == 'tag':
                            if not (isinstance(got, bb.Union) and got._tag == f.default.tag_name and got._value is None):
                                viol('default-differs', 'never-set field reads %r, declared default is tag %s' % (
                                    got, f.default.tag_name), tkind, f.name)
                        elif tkind not in ('Bytes', 'Timestamp'):
                            exp = f.default
                            same_type = type(got) is type(exp) or (tkind in M.FLOATS and isinstance(got, (int, float))
                                                                   and not isinstance(got, bool))
                            if not same_type or got != exp:
                                viol('default-differs', 'never-set field reads %r, declared default is %r' % (got, exp),
                                     tkind, f.name)
                        try:
                            setattr(inst, f.name, got)
                            back = getattr(inst, f.name)
                            if back != got:
                                viol('default-not-stable', 'assigning the default reads back %r' % (back,), tkind, f.name)
                        except bv.ValidationError as e:
                            viol('default-rejected', 'the generated class refuses its own default %r: %s' % (got, e),
                                 tkind + (':pattern' if 'pattern' in M.pparams(b) and b[0] == 'prim' else ''), f.name)
                        except Exception as e:
                            viol('default-assign-raised', 'assigning the default raised %r' % (e,), tkind, f.name)
                try:
                    examples = dt.get_examples()
                except Exception as e:
                    viol('get-examples-raised', 'get_examples() raised %r' % (e,), type(e).__name__, '')
                    continue
                implicit_other = mdef['k'] == 'union' and idx.is_open(nsname, mdef)
                for label, ex in examples.items():
                    if implicit_other and label == 'other' and 'other' not in [e['label'] for e in mdef['examples']]:
                        continue
                    try:
                        doc = json.loads(json.dumps(ex.value))
                    except (TypeError, ValueError) as e:
                        rec.case(core.h64((repr(specs), nsname, dt.name, 'ex', label)), True, classes=['example:' + mdef['k']])
                        viol('example-not-json', 'example %r is not a JSON document: %s (%r)' % (label, e, ex.value),
                             mdef['k'] + ':' + type(e).__name__, 'example ' + label)
                        continue
                    nontriv = any(isinstance(x, (dict, list)) for x in (doc.values() if isinstance(doc, dict) else []))
                    explicit = label in [e['label'] for e in mdef['examples']]
                    rec.case(core.h64((repr(specs), nsname, dt.name, 'ex', label)), nontriv or not explicit,
                             classes=['example:' + mdef['k'], 'example_explicit' if explicit else 'example_void_tag'],
                             sample=lambda: {'type': '%s.%s' % (nsname, dt.name), 'label': label, 'example': doc})
                    shape = mdef['k'] + (':subtypes' if mdef.get('subtypes') else '')
                    if mdef['k'] == 'union' and isinstance(doc, dict):
                        tg = [t for _, _, t in idx.union_all_tags(nsname, mdef) if t['name'] == doc.get('.tag')]
                        if tg and tg[0]['type'] is not None and any(x[0] == 'alias' for x in M.walk_types(tg[0]['type'])):
                            shape += ':member-typed-through-alias'
                    try:
                        dec = ss.json_compat_obj_decode(validator, copy.deepcopy(doc), strict=True)
                    except bv.ValidationError as e:
                        viol('example-rejected', 'example %r does not decode strictly: %s; document %s' % (
                            label, e, json.dumps(doc)[:300]), shape + ':' + reject_kind(str(e)), 'example ' + label)
                        continue
                    except Exception as e:
                        viol('example-decode-raised', 'decoding example %r raised %r' % (label, e),
                             core.stone_frame_sig(e), 'example ' + label)
                        continue
                    try:
                        again = json.loads(json.dumps(ss.json_compat_obj_encode(validator, dec)))
                    except Exception as e:
                        viol('example-reencode-raised', 're-encoding example %r raised %r' % (label, e),
                             type(e).__name__, 'example ' + label)
                        continue
                    if not ref_json.json_equal(again, doc):
                        viol('example-reencode-differs', 'example %r re-encodes to %s, document is %s' % (
                            label, json.dumps(again)[:300], json.dumps(doc)[:300]), shape, 'example ' + label)
    finally:
        pkg.close()


GRID_LITERALS = ['0', '1', '-1', '2', '4', '5', '6', '99', '100', '101', '-2', '2**31-1', '2**31', '-2**31',
                 '-2**31-1', '2**32-1', '2**32', '2**63-1', '2**63', '-2**63', '-2**63-1', '2**64-1', '2**64',
                 '0.0', '0.5', '1.5', '-1.5', '-0.5', '2.5', '2.6', '1e30', '-1e30', '9.9e29', '3.4e38', '3.5e38',
                 '-3.5e38', "''", "'a'", "'ab'", "'abc'", "'abcd'", "'abcdef'", "'abc\\n'", "'ab1'", "'1ab'",
                 "'123'", "'1234'", "'12'", "'cd'", "'abx'", 'True', 'None']


def grid_enum(shard, nshards):
    from . import c08
    types = [t for t in c08.grid_types() if t[0] == 'prim' and t[1] not in ('Bytes', 'Timestamp', 'Void')]
    n = 0
    for ti, t in enumerate(types):
        for li, lit in enumerate(GRID_LITERALS):
            v = eval(lit)
            ok_kind = (t[1] == 'String') == isinstance(v, str) or v is None or isinstance(v, bool)
            if not ok_kind and not (t[1] in M.FLOATS + M.INTS and isinstance(v, (int, float))):
                continue
            if n % nshards == shard:
                yield (t, lit)
            n += 1


def run_grid(case, rec):
    t, lit = case
    v = eval(lit)
    text = 'namespace grid\nstruct S\n    f %s = %s\n' % (render.fmt_type(t, 'grid'), render.fmt_literal(v))
    specs = [('grid.stone', text)]
    kind, payload = front.compile_specs(specs)
    rec.case((repr(t), lit), True, classes=['grid_outcome:' + kind, 'grid:' + t[1]],
             sample=lambda: {'spec': text, 'outcome': kind})
    if kind != 'api':
        return
    ss, bv, bb = pygen.stone_runtime()
    try:
        pkg = pygen.PyPkg(specs, api=payload)
    except pygen.BuildFailure as e:
        rec.note('grid_build_failed(judged by C09):%s' % type(e.exc).__name__)
        return
    try:
        inst = pkg.cls('grid', 'S')()
        human = {'files': specs}
        try:
            got = inst.f
            inst.f = got
        except bv.ValidationError as e:
            rec.violation('C10|default-rejected|%s:grid' % t[1],
                          'the compiler accepted default %s for %s but the generated class refuses it: %s' % (
                              lit, render.fmt_type(t, 'grid'), e), case=case, human=human)
        except Exception as e:
            rec.violation('C10|default-assign-raised|%s:grid' % t[1], 'default %s for %s: %r' % (lit, render.fmt_type(t, 'grid'), e),
                          case=case, human=human)
    finally:
        pkg.close()


def reject_kind(msg):
    import re
    m = msg.split(': ')[-1]
    m = re.sub(r"'[^']*'|\"[^\"]*\"", 'Q', m)
    m = re.sub(r'-?\d+(\.\d+)?', 'N', m)
    return m[:50]


def parts(ctx):
    return [Part('defaults_examples', run, strategy=cases(), n=ctx.n(1600, 12000), budget_s=ctx.n(120, 3000)),
            Part('default_grid', run_grid, enumerate=grid_enum, exhaustive=True)]
