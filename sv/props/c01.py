"""C01 - the compiler accepts exactly the specs that obey the language rules."""
import re

from .. import core, front, gen, inject, render, model as M
from ..core import Part

RULE = ('valid: generated models (1-4 namespaces, imports, alias chains, inheritance, enumerated '
        'subtypes, open/closed unions, all primitives with boundary parameters, List/Map/Nullable '
        'nesting, defaults, examples, routes with versions/deprecation/attrs, annotations, patches) '
        'under random layouts must compile; non-trivial = >=3 feature classes, distinct by model hash. '
        'inject: one violation from a catalogue of %d rules (x variants) placed in a valid model '
        '(directly, through alias chains, imports, patches, inheritance depth, any file) must be '
        'refused with a spec error; every case non-trivial, distinct by (rule, context, spec hash).'
        % len(inject.RULES))
ASSUMPTIONS = ['Rules are those stated in docs/lang_ref.rst or asserted by a pinned test (DESIGN Appendix A).',
               'A non-InvalidSpec exception is counted here and reported once, by C03.']


def has_alias_nullable_field(api):
    idx = M.Index(api)
    return any(f['type'][0] == 'alias' and idx.is_nullable(f['type'])
               for _, d in idx.types(('struct',)) for f in d['fields'])


_CTXNUM = re.compile(r'-\d+')
LEXER_REWRITES = re.compile('[\x0b\x0c\x1c\x1d\x1e\x85\u2028\u2029\r]|"[^"\n]*    [^"\n]*"|\\\\[nr]"')


def run_valid(case, rec):
    api, lay = case['api'], case['layout']
    specs, _ = render.render(api, lay)
    fs = gen.features(api)
    kind, payload = front.compile_specs(specs)
    rec.case(core.h64(repr(M.freeze(api)) + repr(lay)), len(fs) >= 3,
             classes=['outcome:' + kind] + sorted(fs) + (['layout:random'] if lay else ['layout:reference']),
             sample=lambda: {'files': [(p, t[:500]) for p, t in specs[:2]], 'features': sorted(fs)})
    if kind == 'invalid':
        tag = ''
        if payload.msg.startswith('Missing field') and has_alias_nullable_field(api):
            tag = '|model-has-field-typed-by-alias-of-nullable'
        sig = 'C01|refused|' + front.msg_template(payload.msg) + tag
        if LEXER_REWRITES.search(''.join(t for _, t in specs)):
            # the lexer's indentation stripping rewrites such string literals (C02 finding
            # string-linebreaks-normalised / string-indent-run-removed); a refusal of such a spec
            # is attributed to that root cause
            sig = 'C01|refused|spec-has-a-string-literal-the-lexer-rewrites'
        rec.violation(sig,
                      'a spec obeying every language rule was refused: %r' % (payload,), case=case, human=specs)
    elif kind in ('escape', 'hang'):
        rec.note('valid_spec_crashed(reported by C03):' + (core.stone_frame_sig(payload) if payload else 'hang'))


def run_inject(case, rec):
    if case['rule'] is None:
        rec.note('injection_not_applicable')
        return
    specs = case['specs']
    kind, payload = front.compile_specs(specs)
    rec.case(core.h64((case['rule'], case['ctx'], repr(specs))), True,
             classes=['rule:' + case['rule'], 'inj_outcome:' + kind] +
             (['inj_multi_file'] if case['multi_file'] else []),
             sample=lambda: {'rule': case['rule'], 'context': case['ctx'],
                             'files': [(p, t[-700:]) for p, t in specs[:2]], 'outcome': kind})
    if kind == 'api':
        rec.violation('C01|accepted|%s|%s' % (case['rule'], _CTXNUM.sub('', case['ctx'])),
                      'spec violating rule %s (%s) was accepted' % (case['rule'], case['ctx']),
                      case=case, human=specs)
    elif kind == 'invalid':
        rec.note('msg:%s:%s' % (case['rule'], front.msg_template(payload.msg)[:50]))
    else:
        rec.note('inject_crashed(reported by C03):%s' % case['rule'])


def run_inject_for_c03(case, rec):
    from . import c03
    if case['rule'] is None:
        return
    kind, _ = c03.judge(case['specs'], rec)
    rec.case(core.h64(repr(case['specs'])), True, classes=['inj_outcome:' + kind])


def injected():
    return inject.injected()


def parts(ctx):
    return [
        Part('valid', run_valid, strategy=gen.frontend_cases(), n=ctx.n(1500, 40000),
             budget_s=ctx.n(100, 3000)),
        Part('inject', run_inject, strategy=inject.injected(), n=ctx.n(9000, 150000),
             budget_s=ctx.n(120, 4000)),
    ]


def floors(ctx, classes, evaluations, notes):
    msgs = []
    tot = sum(v for k, v in classes.items() if k.startswith('outcome:'))
    if tot and classes.get('outcome:api', 0) < 0.6 * tot:
        msgs.append('fewer than 60%% of generated models are accepted (%d of %d)' % (classes.get('outcome:api', 0), tot))
    missing = [r for r in inject.RULES if not classes.get('rule:' + r)]
    if missing and not ctx.quick:
        msgs.append('rules never exercised: %s' % missing)
    elif len(missing) > 3:
        msgs.append('rules never exercised: %s' % missing)
    return msgs
