"""C11 - meaning does not depend on file order, definition order, layout or delivery."""
import io
import os
import shutil
import sys
import tempfile

from hypothesis import strategies as st

from .. import core, front, gen, render, ref_ir, backends, model as M
from ..core import Part

RULE = ('each generated model is rendered under the reference layout and under random layouts (definitions '
        'permuted and split over 1-6 files per namespace, files permuted, comments / blank lines / '
        'whitespace-only lines / trailing blanks and comments at line boundaries, continuation-line and '
        'multi-line-map variants, explicit :1 versions) and fed through stdin (stone.cli.main) as well; '
        'oracle (metamorphic): identical canonical dump of the Api and byte-identical output of python_types '
        'plus rotating other backends (all built-in backends in the thorough tier). Namespace docs are '
        'pinned to the first file of each namespace because they concatenate in file order (documented). '
        'non-trivial = layout differs from the reference in >=2 dimensions and the model has an import, a '
        'patch or several files per namespace; distinct by (model, layout) hash.')
ASSUMPTIONS = ['Half of the models avoid the word `namespace` in identifiers and docs; the other half use it on purpose.']

C11_CFG = dict(max_ns=3, max_types=6, max_routes=3, schema='plain')


@st.composite
def cases(draw, n_layouts=3):
    kw = dict(C11_CFG)
    kw['avoid_word_namespace'] = draw(st.booleans())
    kw['nullable_aliases'] = draw(st.integers(0, 9)) == 0
    api = draw(gen.api_models(gen.Cfg(**kw)))
    lays = [draw(render.layouts(api, pin_docs=True)) for _ in range(n_layouts)]
    return {'api': api, 'layouts': lays, 'rot': draw(st.integers(0, 99))}


def layout_dims(api, lay):
    dims = set()
    per_ns = {}
    for f in lay['files']:
        per_ns[f['ns']] = per_ns.get(f['ns'], 0) + 1
    if any(v > 1 for v in per_ns.values()):
        dims.add('split')
    if [f['ns'] for f in lay['files']] != sorted([f['ns'] for f in lay['files']], key=[n['name'] for n in api['namespaces']].index):
        dims.add('file_order')
    if any(x in (6, 7, 8, 9, 10) for x in lay['noise']):
        dims.add('noise')
    if lay['cont']:
        dims.add('continuation')
    dims.add('def_order')
    if lay.get('nested'):
        dims.add('nested_definitions')
    return dims


def backend_outputs(api_obj_factory, names):
    out = {}
    for b in names:
        api = api_obj_factory()
        d = tempfile.mkdtemp(prefix='sv_c11_')
        try:
            try:
                backends.run_backend(b, api, d)
                out[b] = backends.read_tree(d, skip=set(backends.CONFIGS[b][2]))
            except backends.BackendCrash as e:
                out[b] = ('crash', e.tb.strip().split('\n')[-1][:100])
        finally:
            shutil.rmtree(d, ignore_errors=True)
    return out


def strip_docs(sig):
    return sig


def via_stdin(specs):
    """Feed the concatenated specs through stone.cli.main's stdin path; returns (kind, api|err)."""
    import stone.cli as cli
    text = ''.join(t if t.endswith('\n') else t + '\n' for _, t in specs)
    d = tempfile.mkdtemp(prefix='sv_c11_stdin_')
    old_argv, old_stdin, old_err = sys.argv, sys.stdin, sys.stderr

    class Stdin:
        buffer = io.BytesIO(text.encode('utf-8'))
    try:
        sys.argv = ['stone_cli_test', 'js_types', d, '-a', ':all', '--', 'types.js']
        sys.stdin = Stdin()
        sys.stderr = io.StringIO()
        try:
            api = cli.main()
            return 'api', api
        except SystemExit as e:
            return 'exit', sys.stderr.getvalue()[:300]
        except Exception as e:
            return 'escape', e
    finally:
        sys.argv, sys.stdin, sys.stderr = old_argv, old_stdin, old_err
        shutil.rmtree(d, ignore_errors=True)


def run(case, rec, all_backends=False):
    api = case['api']
    fs = gen.features(api)
    ref_specs, ref_meta = render.render(api)
    kind, ref_api = front.compile_specs(ref_specs)
    if kind != 'api':
        rec.case(core.h64(repr(ref_specs)), False, classes=['reference_not_accepted:' + kind])
        rec.note('reference_not_accepted(judged by C01/C03)')
        return
    ref_sig = ref_ir.api_sig(ref_api)
    pool = [b for b in backends.GENERIC if b != 'python_types']
    names = ['python_types'] + (pool if all_backends else [pool[case['rot'] % len(pool)], pool[(case['rot'] // 7) % len(pool)]])
    names = list(dict.fromkeys(names))
    ref_out = backend_outputs(lambda: front.compile_specs(ref_specs)[1], names)
    has_word = any('namespace' in ln[1:] or (not ln.startswith('namespace ') and 'namespace' in ln)
                   for _, t in ref_specs for ln in t.split('\n'))
    variants = [('layout', lay) for lay in case['layouts']] + [('stdin', None)]
    for how, lay in variants:
        one = {'api': api, 'layouts': [lay] if lay else [], 'rot': case['rot']}
        if how == 'layout':
            specs, meta = render.render(api, lay)
            dims = layout_dims(api, lay)
            nontriv = len(dims) >= 2 and bool(fs & {'import', 'patch'} or 'split' in dims)
            k2, got = front.compile_specs(specs)
            classes = ['layout'] + ['dim:' + d for d in sorted(dims)]
        else:
            specs = ref_specs
            k2, got = via_stdin(ref_specs)
            nontriv = len(ref_specs) > 1
            classes = ['stdin', 'stdin_word_namespace_inside' if has_word else 'stdin_clean']
        rec.case(core.h64((repr(ref_specs), repr(lay), how)), nontriv, classes=classes + ['outcome:' + k2],
                 sample=lambda: {'how': how, 'files': [(p, t[:300]) for p, t in specs[:2]]})

        def viol(kind_, what, detail=''):
            rec.violation('C11|%s|%s|%s' % (how, kind_, detail), what, case=one,
                          human={'reference': ref_specs, 'variant': specs if how == 'layout' else 'same files through stdin'})
        if k2 != 'api':
            detail = front.msg_template(got.msg) if k2 == 'invalid' else (
                core.stone_frame_sig(got) if k2 == 'escape' and isinstance(got, BaseException) else str(got)[:60] if k2 == 'exit' else k2)
            if how == 'stdin' and k2 == 'exit':
                import re
                detail = re.sub(r"'[^']*'|\d+", 'N', str(got).split('error:')[-1])[:50]
            viol('not-accepted', 'the same specs are accepted in the reference layout but %s here: %r' % (k2, got), detail)
            continue
        sig = ref_ir.api_sig(got)
        diffs = ref_ir.diff(ref_sig, sig)
        for path, e, a in diffs[:3]:
            viol('api-differs', 'API description differs at %s: reference %r, here %r' % ('.'.join(path), e, a), '.'.join(path))
        if diffs:
            continue
        if how == 'stdin':
            continue
        out = backend_outputs(lambda: front.compile_specs(specs)[1], names)
        for b in names:
            if out[b] != ref_out[b]:
                if isinstance(out[b], tuple) or isinstance(ref_out[b], tuple):
                    viol('backend-crash-differs', '%s: %r vs %r' % (b, ref_out[b] if isinstance(ref_out[b], tuple) else 'ok',
                                                                      out[b] if isinstance(out[b], tuple) else 'ok'), b)
                else:
                    files = sorted(k for k in set(out[b]) | set(ref_out[b]) if out[b].get(k) != ref_out[b].get(k))
                    viol('output-differs', 'backend %s writes different bytes for %s' % (b, files[:3]),
                         b + ':' + diff_class(ref_out[b], out[b], files))


def diff_class(a, b, files):
    """What kind of lines differ (keeps root causes apart in signatures)."""
    import difflib
    kinds = set()
    for f in files:
        x = a.get(f, b'').decode('utf-8', 'replace').split('\n')
        y = b.get(f, b'').decode('utf-8', 'replace').split('\n')
        if f not in a or f not in b:
            kinds.add('file-set')
            continue
        for ln in difflib.unified_diff(x, y, lineterm='', n=0):
            if ln[:1] in '+-' and not ln.startswith(('+++', '---')) and ln[1:].strip():
                if 'annotation_type is' in ln or 'annotation_processor' in ln or 'partially_apply' in ln or ln[1:].strip().startswith('if self.is_'):
                    kinds.add('custom-annotation-processors')
                elif sorted(x) == sorted(y):
                    kinds.add('line-order')
                else:
                    kinds.add('content')
    return '+'.join(sorted(kinds))


def run_all(case, rec):
    run(case, rec, all_backends=True)


def parts(ctx):
    if ctx.quick:
        return [Part('layouts', run, strategy=cases(3), n=200, budget_s=150)]
    return [Part('layouts', run_all, strategy=cases(8), n=1500, budget_s=3000)]
