"""C04 - encoding then decoding any valid value returns the same value."""
import copy
import datetime
import json

from .. import core, pyrt, pygen, values, ref_json, model as M
from ..core import Part

RULE = ('generated spec (python-safe names) x 6-14 (type, value) pairs per spec over every struct, '
        'union, alias and route arg/result/error type x {strict, lenient} x {json_encode/json_decode, '
        'json_compat_obj_*}; oracle: independent structural walker says decode(encode(v)) == v, '
        'encode(decode(encode(v))) == encode(v), generated == agrees and != holds after a one-leaf '
        'perturbation; non-trivial = value goes through a struct-valued/nullable tag, enumerated '
        'subtype, union of union, container depth>=2, map of nullable, unset optional, unicode, '
        'boundary int, bytes or timestamp; distinct by (type, value) hash.')
ASSUMPTIONS = ['Instances of the root of an enumerated-subtype tree and of subclasses assigned to a '
               'plain parent-typed field are outside the value domain (unspecified).',
               'Omitted(...) annotations are excluded here (C13 covers them).']
NONTRIVIAL = {'struct_tag', 'nullable_tag', 'enumerated_subtype', 'union_of_union', 'container_depth2',
              'map_of_nullable', 'optional_unset', 'unicode', 'boundary_int', 'bytes', 'timestamp',
              'inherited_fields', 'inherited_tag'}


def perturb(idx, t, v):
    """Change one leaf of an abstract value (or None when there is nothing to change)."""
    k = t[0]
    if k == 'alias':
        return perturb(idx, idx.get(t[1], t[2])['type'], v)
    if k == 'nullable':
        return None if v is None else perturb(idx, t[1], v)
    if k == 'prim':
        return None
    if k == 'list':
        for i, x in enumerate(v):
            p = perturb(idx, t[1], x)
            if p is not None:
                return v[:i] + [p] + v[i + 1:]
        return None
    if k == 'map':
        for key, x in v.items():
            p = perturb(idx, t[2], x)
            if p is not None:
                out = dict(v)
                out[key] = p
                return out
        return None
    if v[0] == 'struct':
        ns, name = v[1]
        d = idx.get(ns, name)
        for _, _, f in idx.struct_all_fields(ns, d):
            if f['name'] in v[2]:
                p = perturb(idx, f['type'], v[2][f['name']])
                if p is not None:
                    out = dict(v[2])
                    out[f['name']] = p
                    return ('struct', v[1], out)
                if idx.is_nullable(f['type']) and f.get('default') is None:
                    out = dict(v[2])
                    del out[f['name']]
                    return ('struct', v[1], out)
        return None
    ns, name = v[1]
    d = idx.get(ns, name)
    tags = [x for _, _, x in idx.union_all_tags(ns, d, with_other=False)]
    voids = [x['name'] for x in tags if x['type'] is None and x['name'] != v[2]]
    if voids:
        return ('union', v[1], voids[0], None)
    return None


def map_datetimes(v, fn):
    """Copy of an abstract value with fn applied to every datetime; None when it has none."""
    hit = [False]

    def go(x):
        if isinstance(x, datetime.datetime):
            hit[0] = True
            return fn(x)
        if isinstance(x, tuple):
            return tuple(go(y) for y in x)
        if isinstance(x, list):
            return [go(y) for y in x]
        if isinstance(x, dict):
            return {k: go(y) for k, y in x.items()}
        return x
    out = go(v)
    return out if hit[0] else None


def roundtrip(case, rec, prop):
    api = case['api']
    idx = M.Index(api)
    pkg, specs = pyrt.build(api, rec)
    if pkg is None:
        return
    ss, bv, bb = pygen.stone_runtime()
    try:
        for key, t, v in case['items']:
            one = {'api': api, 'items': [(key, t, v)]}
            classes = values.value_classes(idx, t, v)
            if values.has_subclass_instance(v):
                classes = classes | {'subclass_instance_in_parent_slot'}
            rec.case(core.h64(repr((M.freeze(key), repr(v)))), bool(classes & NONTRIVIAL),
                     classes=sorted(classes) + ['top:' + key[0]],
                     sample=lambda: {'type': key, 'value': repr(v)[:400]})

            def viol(kind, what, detail=''):
                rec.violation('%s|%s|%s' % (prop, kind, detail), what + ' [type %r value %s]' % (key, repr(v)[:300]),
                              case=one, human={'files': specs, 'type': key, 'value': repr(v)[:1500]})
            try:
                validator = pyrt.validator_for(pkg, key)
                obj = values.materialize(pkg, idx, t, v)
            except Exception as e:
                if prop == 'C04':
                    viol('materialize-raised', 'building a valid value raised %r' % (e,), core.stone_frame_sig(e))
                continue
            try:
                enc_obj = ss.json_compat_obj_encode(validator, obj)
                enc_str = ss.json_encode(validator, obj)
            except Exception as e:
                viol('encode-raised', 'encoding a valid value raised %r' % (e,), core.stone_frame_sig(e))
                continue
            try:
                parsed = json.loads(enc_str)
            except ValueError as e:
                viol('encode-not-json', 'json_encode output is not JSON: %r' % (enc_str[:200],))
                continue
            if prop == 'C05':
                exp = ref_json.encode(idx, t, v)
                for how, got in (('json_compat_obj_encode', enc_obj), ('json_encode', parsed)):
                    if not ref_json.json_equal(json.loads(json.dumps(got)), exp):
                        viol('wire-format', '%s produced %s, the serializer spec prescribes %s' % (
                            how, json.dumps(got)[:400], json.dumps(exp)[:400]), wire_kind(exp, got))
                # the same value with its timestamps given as timezone-aware UTC datetimes (which the
                # Timestamp validator accepts) must produce the same strings
                aware = map_datetimes(v, lambda d: d.replace(tzinfo=datetime.timezone.utc))
                if aware is not None:
                    rec.note('aware_utc_variant')
                    try:
                        got = ss.json_compat_obj_encode(validator, values.materialize(pkg, idx, t, aware))
                        if not ref_json.json_equal(json.loads(json.dumps(got)), exp):
                            viol('wire-format', 'with timezone-aware UTC timestamps json_compat_obj_encode produced %s, '
                                 'the serializer spec prescribes %s' % (json.dumps(got)[:400], json.dumps(exp)[:400]),
                                 'aware-utc' + wire_kind(exp, got))
                    except Exception as e:
                        viol('encode-raised', 'encoding a value with timezone-aware UTC timestamps raised %r' % (e,),
                             'aware-utc|' + core.stone_frame_sig(e))
                continue
            if not ref_json.json_equal(parsed, json.loads(json.dumps(enc_obj))):
                viol('entry-points-differ', 'json_encode and json_compat_obj_encode disagree')
            for strict in (True, False):
                for how in ('obj', 'str'):
                    mode = '%s,%s' % ('strict' if strict else 'lenient', how)
                    try:
                        if how == 'obj':
                            dec = ss.json_compat_obj_decode(validator, copy.deepcopy(enc_obj), strict=strict)
                        else:
                            dec = ss.json_decode(validator, enc_str, strict=strict)
                    except Exception as e:
                        viol('decode-raised', 'decoding (%s) the encoding of a valid value raised %r; encoding %s' % (
                            mode, e, enc_str[:300]), core.stone_frame_sig(e))
                        continue
                    diff = values.same(idx, t, dec, values.norm_roundtrip(idx, t, v))
                    if diff:
                        viol('roundtrip-differs', 'decode(encode(v)) != v (%s): %s; encoding %s' % (mode, diff, enc_str[:300]),
                             pyrt.path_kind(diff))
                        continue
                    try:
                        again = ss.json_compat_obj_encode(validator, dec)
                    except Exception as e:
                        viol('reencode-raised', 're-encoding the decoded value raised %r' % (e,), core.stone_frame_sig(e))
                        continue
                    if not ref_json.json_equal(json.loads(json.dumps(again)), json.loads(json.dumps(enc_obj))):
                        viol('reencode-differs', 'encode(decode(encode(v))) != encode(v): %s vs %s' % (
                            json.dumps(again)[:300], enc_str[:300]))
                    if M.Index(api).base(t)[0] == 'ref' and values.norm_roundtrip(idx, t, v) == v \
                            and not values.has_subclass_instance(v):
                        try:
                            if not (dec == obj) or (dec != obj):
                                viol('eq-disagrees', 'generated == says the round-tripped value differs (%s)' % mode)
                        except Exception as e:
                            viol('eq-raised', '== raised %r' % (e,), core.stone_frame_sig(e))
            if idx.base(t)[0] == 'ref':
                pv = perturb(idx, t, v)
                if pv is not None:
                    try:
                        other = values.materialize(pkg, idx, t, pv)
                        if obj == other or not (obj != other):
                            viol('ne-fails', 'generated == does not distinguish a value perturbed in one leaf: %s' % repr(pv)[:200])
                    except Exception:
                        rec.note('perturbation_not_materializable')
    finally:
        pkg.close()


def wire_kind(exp, got):
    """Coarse description of where two JSON values first differ."""
    def walk(e, g, path):
        if isinstance(e, dict) and isinstance(g, dict):
            if set(e) != set(g):
                extra = sorted(set(g) - set(e))
                missing = sorted(set(e) - set(g))
                def kk(ks):
                    return ','.join('.tag' if k == '.tag' else 'key' for k in ks)
                return path + '{extra:%s missing:%s}' % (kk(extra), kk(missing))
            for k in e:
                r = walk(e[k], g[k], path + ('/.tag' if k == '.tag' else '/k'))
                if r:
                    return r
            return None
        if isinstance(e, list) and isinstance(g, list) and len(e) == len(g):
            for x, y in zip(e, g):
                r = walk(x, y, path + '/[]')
                if r:
                    return r
            return None
        if ref_json.json_equal(e, g):
            return None
        return path + ':%s!=%s' % (type(e).__name__, type(g).__name__)
    return (walk(exp, json.loads(json.dumps(got)), '') or '?')[-60:]


def run(case, rec):
    roundtrip(case, rec, 'C04')


def parts(ctx):
    return [Part('roundtrip', run, strategy=pyrt.typed_values(subclass=True), n=ctx.n(1280, 8000), budget_s=ctx.n(120, 3000)),
            Part('roundtrip_wild', run, strategy=pyrt.typed_values(wild=True, subclass=True), n=ctx.n(320, 2000), budget_s=ctx.n(60, 1500))]
