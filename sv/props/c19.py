"""C19 - backends see exactly the routes and attributes the command line selects."""
import io
import itertools
import os
import re
import shutil
import sys
import tempfile

from hypothesis import strategies as st

from .. import core, front, gen, render, model as M, VERIF_DIR
from ..core import Part

RULE = ('cli: generated multi-namespace specs whose stone_cfg.Route covers every literal kind, run through '
        'stone.cli.main with a recording backend: random filter expressions (depth <= 4, with / without '
        'parentheses, and/or mixes, = and !=, literals of every kind, null comparisons, absent attributes), '
        'every -w / -b namespace subset choice, -a attribute subsets, :all and unknown names; oracle: an '
        'independent recursive-descent parser / evaluator (typed equality, `and` over `or`, absent = null) '
        'decides the surviving routes; unselected namespaces show no routes and unchanged types; route.attrs '
        'keys and route_schema.fields equal the selection; by-name tables mirror the lists; malformed '
        'expressions, unknown namespaces and unknown attributes end in a non-zero exit with a message. '
        'tables (exhaustive per expression): parse_route_attr_filter(expr).eval() against the reference on '
        'all assignments of its attributes over {absent, null, each literal, a different value per kind}. '
        'malformed: token-level edits of valid expressions. non-trivial = expression with both connectives '
        'and >= 3 atoms, or a null comparison; distinct by (expression, spec, selection).')
ASSUMPTIONS = ['Comparisons against Timestamp- and union-typed attributes are UNSPEC (no literal of that kind exists).',
               'int and float literals are compared numerically; a boolean equals only a boolean.']
REC_BACKEND = os.path.join(VERIF_DIR, 'backends', 'rec.stoneg.py')


# ---------------------------------------------------------------------------------------
# reference filter language

TOK = re.compile(r'\s*(?:(?P<lpar>\()|(?P<rpar>\))|(?P<neq>!=)|(?P<eq>=)|(?P<str>"(?:[^\\"]|\\.)*")|'
                 r'(?P<float>-?\d+(?:\.\d*(?:e-?\d+)?|e-?\d+))|(?P<int>-?\d+)|(?P<id>[a-zA-Z_][a-zA-Z0-9_-]*))')


class Bad(Exception):
    pass


def lex(s):
    out, i = [], 0
    s = s.rstrip(' ')
    while i < len(s):
        m = TOK.match(s, i)
        if not m or m.end() == i:
            raise Bad('illegal character at %d' % i)
        i = m.end()
        k = m.lastgroup
        v = m.group(k)
        if k == 'id' and v in ('and', 'or'):
            out.append((v, v))
        elif k == 'id' and v in ('true', 'false'):
            out.append(('lit', v == 'true'))
        elif k == 'id' and v == 'null':
            out.append(('lit', None))
        elif k == 'str':
            out.append(('lit', v[1:-1]))
        elif k == 'float':
            out.append(('lit', float(v)))
        elif k == 'int':
            out.append(('lit', int(v)))
        else:
            out.append((k, v))
    return out


def parse(s):
    toks = lex(s)
    pos = [0]

    def peek():
        return toks[pos[0]][0] if pos[0] < len(toks) else None

    def take(kind):
        if peek() != kind:
            raise Bad('expected %s' % kind)
        pos[0] += 1
        return toks[pos[0] - 1][1]

    def expr():
        node = term()
        while peek() == 'or':
            take('or')
            node = ('or', node, term())
        return node

    def term():
        node = factor()
        while peek() == 'and':
            take('and')
            node = ('and', node, factor())
        return node

    def factor():
        if peek() == 'lpar':
            take('lpar')
            node = expr()
            take('rpar')
            return node
        name = take('id')
        if peek() == 'eq':
            take('eq')
            op = '='
        else:
            take('neq')
            op = '!='
        return ('pred', name, op, take('lit'))
    node = expr()
    if pos[0] != len(toks):
        raise Bad('trailing tokens')
    return node


def typed_equal(v, lit):
    """-> True / False / None (unspecified)."""
    import datetime
    if v is None or lit is None:
        return v is None and lit is None
    if isinstance(v, datetime.datetime) or type(v).__name__ == 'TagRef':
        return None
    if isinstance(v, bytes):
        return v == lit.encode('utf-8') if isinstance(lit, str) else False
    if isinstance(v, bool) or isinstance(lit, bool):
        return isinstance(v, bool) and isinstance(lit, bool) and v == lit
    if isinstance(v, (int, float)) and isinstance(lit, (int, float)):
        return v == lit
    if isinstance(v, str) and isinstance(lit, str):
        return v == lit
    return False


def evaluate(node, attrs):
    """Three-valued: None when a comparison is unspecified."""
    k = node[0]
    if k == 'pred':
        r = typed_equal(attrs.get(node[1]), node[3])
        if r is None:
            return None
        return r if node[2] == '=' else not r
    a, b = evaluate(node[1], attrs), evaluate(node[2], attrs)
    if k == 'and':
        if a is False or b is False:
            return False
        return None if a is None or b is None else True
    if a is True or b is True:
        return True
    return None if a is None or b is None else False


def atoms(node):
    return [node] if node[0] == 'pred' else atoms(node[1]) + atoms(node[2])


def shape(node):
    at = atoms(node)
    ops = set()

    def walk(n):
        if n[0] != 'pred':
            ops.add(n[0])
            walk(n[1])
            walk(n[2])
    walk(node)
    return len(at), ops, any(a[3] is None for a in at)


# ---------------------------------------------------------------------------------------
# expression generation

def fmt_lit(v):
    if v is None:
        return 'null'
    if v is True:
        return 'true'
    if v is False:
        return 'false'
    if isinstance(v, str):
        return '"%s"' % v
    if isinstance(v, float):
        return render.fmt_float(v)
    return str(v)


@st.composite
def exprs(draw, names, values, depth=3):
    """-> expression text over attribute `names`; `values[name]` are literals worth comparing with."""
    def atom():
        name = draw(st.sampled_from(names + ['zz_absent']))
        pool = [None, True, False, 0, 1, -1, 1.5, 'x', ''] + list(values.get(name, []))
        lit = draw(st.sampled_from(pool))
        op = draw(st.sampled_from(['=', '!=']))
        sp = draw(st.sampled_from(['', ' ']))
        return '%s%s%s%s%s' % (name, sp, op, sp, fmt_lit(lit))

    def build(d):
        if d <= 0 or draw(st.integers(0, 2)) == 0:
            return atom()
        a, b = build(d - 1), build(d - 1)
        s = '%s %s %s' % (a, draw(st.sampled_from(['and', 'or'])), b)
        return '(%s)' % s if draw(st.booleans()) else s
    return build(depth)


def literal_values(api):
    """attribute -> literals occurring as values in the spec (so that `=` can be true)."""
    out = {}
    sch = api.get('schema')
    if not sch:
        return out
    idx = M.Index(api)
    for f in sch['fields']:
        b = idx.base(f['type'])
        vals = []
        if b[0] == 'prim' and b[1] not in ('Timestamp',):
            if f.get('default') is not None:
                vals.append(f['default'][1])
            for _, r in idx.routes():
                v = r['attrs'].get(f['name'])
                if v is not None and v[0] == 'lit' and v[1] is not None:
                    vals.append(v[1])
        out[f['name']] = [v for v in vals if isinstance(v, (bool, int, float)) or
                          (isinstance(v, str) and '"' not in v and '\\' not in v and '\n' not in v)]
    return out


C19_CFG = dict(schema='generic', max_ns=4, max_types=4, max_routes=4, examples=False, docs=False,
               annotations=False, patches=False)


@st.composite
def cli_cases(draw):
    api = draw(gen.api_models(gen.Cfg(**C19_CFG)))
    sch = api.get('schema') or {'fields': []}
    names = [f['name'] for f in sch['fields']]
    values = literal_values(api)
    nsn = [n['name'] for n in api['namespaces']]
    runs = []
    for _ in range(draw(st.integers(4, 8))):
        run = {}
        if draw(st.integers(0, 9)) < 7 and names:
            run['f'] = draw(exprs(names, values, draw(st.integers(0, 3))))
            m = draw(st.integers(0, 11))
            if m == 0:
                run['f'] += draw(st.sampled_from([' and', ' or', ' )', ' = 1', ' and and a=1']))
            elif m == 1:
                run['f'] = draw(st.sampled_from(['(', 'and ', '== ', '! '])) + run['f']
        r = draw(st.integers(0, 9))
        if r < 3:
            run['w'] = [n for n in nsn if draw(st.booleans())]
        elif r < 6:
            run['b'] = [n for n in nsn if draw(st.booleans())]
        elif r == 6:
            run[draw(st.sampled_from(['w', 'b']))] = ['zz_no_such_namespace']
        r = draw(st.integers(0, 9))
        if r < 4:
            run['a'] = [n for n in names if draw(st.booleans())]
        elif r < 6:
            run['a'] = [':all']
        elif r == 6:
            run['a'] = names[:1] + ['zz_no_such_attr']
        runs.append(run)
    return {'api': api, 'runs': runs}


def run_cli(specdir, paths, run):
    import stone.cli as cli
    argv = ['stone_cli_test', REC_BACKEND, os.path.join(specdir, 'out')] + paths
    if 'f' in run:
        argv += ['-f', run['f']]
    for n in run.get('w', []):
        argv += ['-w', n]
    for n in run.get('b', []):
        argv += ['-b', n]
    for a in run.get('a', []):
        argv += ['-a', a]
    old_argv, old_err, old_out = sys.argv, sys.stderr, sys.stdout
    try:
        sys.argv = argv
        sys.stderr = io.StringIO()
        sys.stdout = io.StringIO()
        try:
            return 'api', cli.main(), ''
        except SystemExit as e:
            return 'exit', e.code, sys.stderr.getvalue()
        except Exception as e:
            return 'escape', e, ''
    finally:
        sys.argv, sys.stderr, sys.stdout = old_argv, old_err, old_out


def run_case(case, rec):
    api = case['api']
    specs, _ = render.render(api)
    kind, full = front.compile_specs(specs)
    if kind != 'api':
        rec.note('not_accepted(judged by C01/C03)')
        return
    sch_names = [f.name for f in full.route_schema.fields]
    base_routes = {ns: [(r.name, r.version, dict(r.attrs)) for r in n.routes] for ns, n in full.namespaces.items()}
    base_types = {ns: [d.name for d in n.data_types] for ns, n in full.namespaces.items()}
    d = tempfile.mkdtemp(prefix='sv_c19_')
    try:
        paths = []
        for i, (p, t) in enumerate(specs):
            fp = os.path.join(d, '%d_%s' % (i, p))
            with open(fp, 'w', encoding='utf-8') as f:
                f.write(t)
            paths.append(fp)
        for run in case['runs']:
            one = {'api': api, 'runs': [run]}
            human = {'files': specs, 'options': run}
            outcome, payload, err = run_cli(d, paths, run)
            # ---- expectation
            expect_error = None
            node = None
            if run.get('f'):
                try:
                    node = parse(run['f'])
                except Bad as e:
                    expect_error = 'malformed-filter'
            for key in ('w', 'b'):
                if any(n not in base_routes for n in run.get(key, [])):
                    expect_error = expect_error or 'unknown-namespace'
            sel = set(run.get('a', []))
            if ':all' in sel:
                sel = set(sch_names)
            if any(a not in sch_names for a in sel):
                expect_error = expect_error or 'unknown-attribute'
            natoms, ops, has_null = shape(node) if node else (0, set(), False)
            rec.case(core.h64((repr(specs), repr(run))), (len(ops) == 2 and natoms >= 3) or has_null or bool(expect_error),
                     classes=['opt:' + k for k in sorted(run)] + (['expect_error:' + expect_error] if expect_error else []) +
                     (['both_connectives'] if len(ops) == 2 else []) + (['null_comparison'] if has_null else []),
                     sample=lambda: {'options': run, 'outcome': outcome})

            def viol(kind_, what, detail=''):
                rec.violation('C19|%s|%s' % (kind_, detail), '%s [options %r]' % (what, run), case=one, human=human)
            if outcome == 'escape':
                viol('cli-crashed', 'stone.cli raised %r' % (payload,), core.stone_frame_sig(payload))
                continue
            if expect_error:
                if outcome != 'exit' or payload in (0, None) or not err.strip():
                    viol('error-not-reported', '%s was not reported as an error (outcome %s, status %r, stderr %r)' % (
                        expect_error, outcome, payload if outcome == 'exit' else 'returned', err[:120]), expect_error)
                continue
            if outcome == 'exit':
                viol('valid-options-rejected', 'valid options ended with status %r: %s' % (payload, err[:200]),
                     re.sub(r"'[^']*'|\d+", 'N', err.strip().split('\n')[-1])[:50])
                continue
            got = payload
            for ns, n in got.namespaces.items():
                routes_visible = (not run.get('w') or ns in run['w']) and ns not in run.get('b', []) \
                    if ('w' in run and run['w']) or 'b' in run else True
                if 'w' in run and not run['w']:
                    routes_visible = True         # no -w given at all
                exp_routes, unspec = [], False
                for name, version, attrs in base_routes[ns]:
                    if not routes_visible:
                        continue
                    if node is None:
                        exp_routes.append((name, version))
                    else:
                        r = evaluate(node, attrs)
                        if r is None:
                            unspec = True
                        elif r:
                            exp_routes.append((name, version))
                got_routes = [(r.name, r.version) for r in n.routes]
                if [d_.name for d_ in n.data_types] != base_types[ns]:
                    viol('types-changed', 'namespace %s: data types changed by route selection' % ns)
                if not unspec and got_routes != exp_routes:
                    why = 'namespace-selection' if not routes_visible or (node is None) else filter_diff_kind(node, base_routes[ns], got_routes)
                    viol('wrong-routes', 'namespace %s shows routes %s, expected %s' % (ns, got_routes, exp_routes), why)
                byname = {}
                for r in n.routes:
                    byname.setdefault(r.name, {})[r.version] = r
                if {k: v.at_version for k, v in n.routes_by_name.items()} != byname or \
                        n.route_by_name != {r.name: r for r in n.routes if r.version == 1}:
                    viol('by-name-tables', 'namespace %s: routes_by_name / route_by_name do not mirror routes' % ns)
                for r in n.routes:
                    if set(r.attrs) != sel:
                        viol('route-attrs-visible', 'route %s.%s exposes attrs %s, selection is %s' % (
                            ns, r.name, sorted(r.attrs), sorted(sel)), 'extra' if set(r.attrs) - sel else 'missing')
                        break
            if [f.name for f in got.route_schema.fields] != [a for a in sch_names if a in sel]:
                viol('route-schema-visible', 'route_schema.fields %s, selection %s' % (
                    [f.name for f in got.route_schema.fields], [a for a in sch_names if a in sel]))
    finally:
        shutil.rmtree(d, ignore_errors=True)


def filter_diff_kind(node, routes, got_routes):
    """Which kind of atom decides the first route that is wrongly kept / dropped."""
    kinds = set()
    for name, version, attrs in routes:
        exp = evaluate(node, attrs)
        if exp is None:
            continue
        if ((name, version) in got_routes) != exp:
            for a in atoms(node):
                v, lit = attrs.get(a[1]), a[3]
                te = typed_equal(v, lit)
                naive = (v == lit)
                if te is not None and te != naive:
                    kinds.add('%s-vs-%s' % (type(v).__name__, type(lit).__name__))
            break
    return '+'.join(sorted(kinds)) or 'boolean-structure'


# ---------------------------------------------------------------------------------------
# truth tables through parse_route_attr_filter

class FakeRoute:
    def __init__(self, attrs):
        self.attrs = attrs


@st.composite
def table_cases(draw):
    names = ['aa', 'bb', 'cc']
    values = {'aa': [3, 2.5], 'bb': ['v', 'w w'], 'cc': [True]}
    return {'expr': draw(exprs(names, values, draw(st.integers(1, 4))))}


def run_table(case, rec):
    from stone.cli_helpers import parse_route_attr_filter
    text = case['expr']
    try:
        node = parse(text)
    except Bad:
        raise core.HarnessError('generated expression is not valid in the reference grammar: %r' % text)
    try:
        got, errors = parse_route_attr_filter(text)
    except Exception as e:
        rec.violation('C19|filter-parser-crashed|' + core.stone_frame_sig(e), 'parse_route_attr_filter(%r) raised %r' % (text, e),
                      case=case, human=text)
        return
    natoms, ops, has_null = shape(node)
    rec.case(text, (len(ops) == 2 and natoms >= 3) or has_null, classes=['atoms:%d' % min(natoms, 6)] +
             (['both_connectives'] if len(ops) == 2 else []) + (['null_comparison'] if has_null else []),
             sample=lambda: {'expression': text})
    if errors or got is None:
        rec.violation('C19|valid-filter-rejected|', 'valid expression %r reported errors %r' % (text, errors), case=case, human=text)
        return
    at = atoms(node)
    domain = {}
    for _, name, _, lit in at:
        dom = domain.setdefault(name, ['<absent>', None])
        for v in (lit, True, 1, 0, 1.0, 'v', '1', b'v'):
            if v is not None and not any(type(v) is type(x) and v == x for x in dom if x != '<absent>'):
                dom.append(v)
    names = sorted(domain)
    n = 0
    for combo in itertools.product(*[domain[k] for k in names]):
        n += 1
        if n > 4000:
            break
        attrs = {k: v for k, v in zip(names, combo) if v != '<absent>' or isinstance(v, bytes)}
        attrs = {k: v for k, v in attrs.items() if not (isinstance(v, str) and v == '<absent>')}
        exp = evaluate(node, attrs)
        if exp is None:
            continue
        try:
            res = bool(got.eval(FakeRoute(attrs)))
        except Exception as e:
            rec.violation('C19|filter-eval-crashed|' + core.stone_frame_sig(e), 'eval of %r on %r raised %r' % (text, attrs, e),
                          case=case, human=text)
            return
        if res != exp:
            kinds = set()
            for a in at:
                v, lit = attrs.get(a[1]), a[3]
                te = typed_equal(v, lit)
                if te is not None and te != (v == lit):
                    kinds.add('%s-vs-%s' % (type(v).__name__, type(lit).__name__))
            rec.violation('C19|filter-semantics|' + ('+'.join(sorted(kinds)) or 'boolean-structure'),
                          'expression %r on attributes %r evaluates to %r, ordinary boolean semantics give %r' % (text, attrs, res, exp),
                          case=case, human={'expression': text, 'attrs': repr(attrs)})
            return
    rec.note('assignments', n)


# ---------------------------------------------------------------------------------------
# malformed expressions

EDIT_TOKENS = ['and', 'or', '(', ')', '=', '!=', 'aa', '"s"', '1', 'null', '==', '&&', '!', '<', "'s'", '1.', 'true']


@st.composite
def malformed_cases(draw):
    base = draw(exprs(['aa', 'bb'], {'aa': [3], 'bb': ['v']}, draw(st.integers(0, 2))))
    toks = re.findall(r'"[^"]*"|!=|[()=]|[^\s()=!]+|!', base)
    for _ in range(draw(st.integers(1, 2))):
        op = draw(st.sampled_from(['delete', 'insert', 'replace', 'dup']))
        i = draw(st.integers(0, max(0, len(toks) - 1)))
        if op == 'delete' and toks:
            del toks[i]
        elif op == 'insert':
            toks.insert(i, draw(st.sampled_from(EDIT_TOKENS)))
        elif op == 'replace' and toks:
            toks[i] = draw(st.sampled_from(EDIT_TOKENS))
        elif toks:
            toks.insert(i, toks[i])
    return {'expr': ' '.join(toks)}


def run_malformed(case, rec):
    from stone.cli_helpers import parse_route_attr_filter
    text = case['expr']
    if not text.strip():
        return
    try:
        node = parse(text)
    except Bad:
        node = None
    try:
        got, errors = parse_route_attr_filter(text)
    except Exception as e:
        rec.case(text, True, classes=['crash'])
        rec.violation('C19|filter-parser-crashed|' + core.stone_frame_sig(e), 'parse_route_attr_filter(%r) raised %r' % (text, e),
                      case=case, human=text)
        return
    rec.case(text, node is None, classes=['malformed' if node is None else 'still_valid'],
             sample=lambda: {'expression': text, 'errors': errors})
    if node is None and not errors:
        rec.violation('C19|malformed-filter-accepted|', 'malformed expression %r was accepted without errors (parsed as %r)' % (text, got),
                      case=case, human=text)
    elif node is not None and errors:
        rec.violation('C19|valid-filter-rejected|', 'valid expression %r reported errors %r' % (text, errors), case=case, human=text)
    elif node is not None:
        run_table(case, core.Recorder() if False else rec)


def parts(ctx):
    return [Part('cli', run_case, strategy=cli_cases(), n=ctx.n(300, 2000), budget_s=ctx.n(120, 3000)),
            Part('tables', run_table, strategy=table_cases(), n=ctx.n(8000, 100000), budget_s=ctx.n(100, 3000)),
            Part('malformed', run_malformed, strategy=malformed_cases(), n=ctx.n(4000, 50000), budget_s=ctx.n(60, 2000))]
