"""C08 - generated classes accept a value exactly when it satisfies the declared type."""
import datetime
import math

from hypothesis import strategies as st

from .. import core, gen, pyrt, pygen, render, values, model as M
from ..core import Part
from ..model import prim

RULE = ('grid (exhaustive): every primitive type x parameter combinations at the type\'s extremes, '
        'List/Map with item bounds, x values at bound-1/bound/bound+1, empty and max+-1 lengths, '
        'pattern hit / prefix-only hit / trailing-newline / miss, and a fixed list of wrong Python '
        'types, through setattr on a generated struct and through generated union constructors; '
        'random: fields and tags of generated specs x valid values and values one step away from '
        'valid (a leaf / item / key replaced, list length pushed across a bound, foreign / parent / '
        'child class instances). Oracle: reference predicate derived from the model: accept => no '
        'exception and read-back equals the value up to int->float and tuple->list; reject => '
        'ValidationError and nothing else. non-trivial = value within one step of the accept/reject '
        'boundary (all grid points; mutated random values); distinct by (type, value) hash. '
        'histories (model-based, stateful): sequences of 4-18 operations on one struct instance - assign a '
        'valid value, assign a value the predicate rejects, assign None, delete, read, encode, decode the '
        'encoding and continue with the result, compare with a fresh instance, rebuild through the '
        'constructor - against a dict model; after every step an independent walker compares the set / unset '
        'state and value of every field with the model, reads of unset fields give None / the declared '
        'default / AttributeError, and encodings equal the reference encoding of the model; non-trivial = '
        'history with a refused assignment, delete or None followed by an observation.')
TECHNIQUE = 'property-based testing (Hypothesis): exhaustive grid, random members and model-based operation histories against a reference predicate'
ASSUMPTIONS = ['bool where a number is expected, bytearray for Bytes, a child-union instance where its '
               'parent union is expected and incomplete struct instances are UNSPEC (not judged).']

UTC = datetime.timezone.utc
PLUS2 = datetime.timezone(datetime.timedelta(hours=2))


class Foreign:
    pass


# ---------------------------------------------------------------------------------------
# reference predicate over Python values

def model_class_of(idx, obj):
    """(ns, def) of the generated class of obj, by module and class name."""
    mod = type(obj).__module__.rsplit('.', 1)[-1]
    return idx.defs.get((mod, type(obj).__name__)), mod


def ref_pred(idx, t, v):
    """-> ('A', expected read-back) | ('R', reason) | ('U', why)."""
    k = t[0]
    if k == 'alias':
        return ref_pred(idx, idx.get(t[1], t[2])['type'], v)
    if k == 'nullable':
        if v is None:
            return 'A', None
        return ref_pred(idx, t[1], v)
    if k == 'prim':
        return pred_prim(t, v)
    if k == 'list':
        if not isinstance(v, (list, tuple)):
            return 'R', 'not-a-list:%s' % type(v).__name__
        if (t[2] is not None and len(v) < t[2]) or (t[3] is not None and len(v) > t[3]):
            return 'R', 'item-count'
        out, verdict = [], 'A'
        for x in v:
            a, r = ref_pred(idx, t[1], x)
            if a == 'R':
                return 'R', 'item:' + r
            if a == 'U':
                verdict = 'U'
            out.append(r)
        return (verdict, out) if verdict == 'A' else ('U', 'item')
    if k == 'map':
        if not isinstance(v, dict):
            return 'R', 'not-a-dict:%s' % type(v).__name__
        out, verdict = {}, 'A'
        for key, x in v.items():
            ka, kr = ref_pred(idx, t[1], key)
            a, r = ref_pred(idx, t[2], x)
            if ka == 'R':
                return 'R', 'key:' + kr
            if a == 'R':
                return 'R', 'value:' + r
            if 'U' in (ka, a):
                verdict = 'U'
            out[key] = r
        return (verdict, out) if verdict == 'A' else ('U', 'entry')
    d = idx.get(t[1], t[2])
    got, mod = model_class_of(idx, v)
    if got is None or got['k'] != d['k']:
        return 'R', 'wrong-class:%s' % ('object' if type(v) is object else type(v).__name__ if got is None else 'other-kind')
    if d['k'] == 'struct':
        chain = [(n, x['name']) for n, x in idx.chain(mod, got)]
        if (t[1], t[2]) in chain:
            for _, _, f in idx.struct_all_fields(mod, got):
                if not idx.is_optional(f) and repr(getattr(v, '_%s_value' % f['name'], None)) == 'NOT_SET':
                    return 'U', 'incomplete struct instance'
            return 'A', v          # the class itself or a subclass (also for enumerated subtypes)
        return 'R', 'unrelated-or-parent-struct'
    # unions: the union itself or one of its parent unions
    chain = [(n, x['name']) for n, x in idx.chain(t[1], d)]
    if (mod, got['name']) == (t[1], t[2]):
        return 'A', v
    if (mod, got['name']) in chain:
        return 'A', v
    tchain = [(n, x['name']) for n, x in idx.chain(mod, got)]
    if (t[1], t[2]) in tchain:
        return 'U', 'child union where the parent is expected'
    return 'R', 'unrelated-union'


def pred_prim(t, v):
    name, p = t[1], M.pparams(t)
    if name == 'Void':
        return ('A', None) if v is None else ('R', 'non-none-for-void')
    if name == 'Boolean':
        return ('A', v) if isinstance(v, bool) else ('R', 'not-bool:%s' % type(v).__name__)
    if name in M.INTS:
        if isinstance(v, bool):
            return 'U', 'bool for int'
        if not isinstance(v, int):
            return 'R', 'not-int:%s' % type(v).__name__
        lo, hi = M.INT_RANGES[name]
        lo = max(lo, p.get('min_value', lo))
        hi = min(hi, p.get('max_value', hi))
        return ('A', v) if lo <= v <= hi else ('R', 'int-range')
    if name in M.FLOATS:
        if isinstance(v, bool):
            return 'U', 'bool for float'
        if not isinstance(v, (int, float)):
            return 'R', 'not-real:%s' % type(v).__name__
        try:
            f = float(v)
        except OverflowError:
            return 'R', 'too-large-for-float'
        if math.isnan(f) or math.isinf(f):
            return 'R', 'non-finite'
        lo = -M.FLOAT32_MAX if name == 'Float32' else None
        hi = M.FLOAT32_MAX if name == 'Float32' else None
        if 'min_value' in p:
            lo = float(p['min_value']) if lo is None else max(lo, float(p['min_value']))
        if 'max_value' in p:
            hi = float(p['max_value']) if hi is None else min(hi, float(p['max_value']))
        if (lo is not None and f < lo) or (hi is not None and f > hi):
            return 'R', 'float-range'
        return 'A', f
    if name == 'String':
        if not isinstance(v, str):
            return 'R', 'not-str:%s' % type(v).__name__
        if 'min_length' in p and len(v) < p['min_length']:
            return 'R', 'str-min-length'
        if 'max_length' in p and len(v) > p['max_length']:
            return 'R', 'str-max-length'
        if 'pattern' in p:
            import re
            # whole-string match: \Z semantics (a trailing newline does not match)
            if re.compile(r'\A(?:' + p['pattern'] + r')\Z').match(v) is None:
                return 'R', 'pattern'
        return 'A', v
    if name == 'Bytes':
        if isinstance(v, bytes):
            return 'A', v
        if isinstance(v, (bytearray, memoryview)):
            return 'U', 'bytes-like'
        return 'R', 'not-bytes:%s' % type(v).__name__
    if name == 'Timestamp':
        if not isinstance(v, datetime.datetime):
            return 'R', 'not-datetime:%s' % type(v).__name__
        if v.tzinfo is not None and v.tzinfo.utcoffset(v).total_seconds() != 0:
            return 'R', 'non-utc-timezone'
        return 'A', v
    raise AssertionError(name)


def readback_equal(exp, got):
    """Equal up to the documented normalisations (either the raw or the normalised form)."""
    if isinstance(exp, float) and isinstance(got, (int, float)) and not isinstance(got, bool):
        return float(got) == exp
    if isinstance(exp, list):
        return isinstance(got, (list, tuple)) and len(exp) == len(got) and all(readback_equal(a, b) for a, b in zip(exp, got))
    if isinstance(exp, dict):
        return isinstance(got, dict) and set(exp) == set(got) and all(readback_equal(exp[k], got[k]) for k in exp)
    if isinstance(exp, (int, str, bytes, bool, datetime.datetime)) or exp is None:
        return type(exp) is type(got) and exp == got
    return exp is got


# ---------------------------------------------------------------------------------------
# exhaustive grid

def grid_types():
    ts = []
    for name in M.INTS:
        lo, hi = M.INT_RANGES[name]
        combos = [{}, {'min_value': lo}, {'max_value': hi}, {'min_value': lo, 'max_value': hi},
                  {'min_value': lo + 1, 'max_value': hi - 1}, {'min_value': 5, 'max_value': 5},
                  {'min_value': 5}, {'max_value': 100}, {'min_value': 0, 'max_value': 0}, {'max_value': 0},
                  {'min_value': 0}]
        if lo < 0:
            combos += [{'min_value': -1}, {'max_value': -1}]
        ts += [prim(name, **c) for c in combos]
    for name in M.FLOATS:
        combos = [{}, {'min_value': 0}, {'max_value': 0}, {'min_value': 0.0, 'max_value': 0.0},
                  {'min_value': -1.5, 'max_value': 2.5}, {'min_value': 1}, {'max_value': -1},
                  {'min_value': 1e30}, {'max_value': -1e30}, {'min_value': 5e-324}]
        if name == 'Float32':
            combos += [{'min_value': -3.4e38, 'max_value': 3.4e38}]
        else:
            combos += [{'min_value': -1.7e308, 'max_value': 1.7e308}]
        ts += [prim(name, **c) for c in combos]
    lens = [{}, {'min_length': 0}, {'min_length': 1}, {'max_length': 1}, {'min_length': 2, 'max_length': 2},
            {'min_length': 0, 'max_length': 3}, {'min_length': 3, 'max_length': 5}]
    pats = [None, '[a-z]+', '\\d{3}', 'ab|cd', 'a$', '^a', '(abc)', '.*', 'a.c']
    for ln in lens:
        ts.append(prim('String', **ln))
    for p in pats[1:]:
        ts.append(prim('String', pattern=p))
        ts.append(prim('String', pattern=p, min_length=2, max_length=3))
    ts += [prim('Bytes'), prim('Boolean'), prim('Timestamp', format='%Y-%m-%dT%H:%M:%SZ'),
           prim('Timestamp', format='%Y')]
    base = list(ts)
    out = list(ts)
    # nullable variants of a sample, lists and maps with item bounds
    for t in base[::7]:
        out.append(('nullable', t))
    items = [prim('Int32', max_value=5), prim('String', pattern='[a-z]+'), prim('Boolean'), prim('Float64', min_value=0)]
    for it in items:
        for mn, mx in [(None, None), (0, None), (1, None), (None, 1), (2, 2), (1, 3), (0, 1)]:
            out.append(('list', it, mn, mx))
        out.append(('list', ('nullable', it), None, 2))
        out.append(('list', ('list', it, 1, 2), None, None))
        out.append(('map', prim('String'), it))
        out.append(('map', prim('String', pattern='[a-z]+', max_length=3), ('nullable', it)))
        out.append(('nullable', ('list', it, 1, 2)))
    return out


GRID_VALUES = [
    'None', 'True', 'False', '0', '1', '-1', '2', '4', '5', '6', '99', '100', '101', '-2', '2**31-1', '2**31', '-2**31', '-2**31-1',
    '2**32-1', '2**32', '2**63-1', '2**63', '-2**63', '-2**63-1', '2**64-1', '2**64', '10**400',
    '0.0', '-0.0', '0.5', '1.0', '1.5', '-1.5', '2.5', '2.6', '5.0', '5e-324', '0.0-5e-324', '1e30', '-1e30', '9.9e29',
    '3.4e38', '3.40282e38', '3.5e38', '-3.5e38', '1.7e308', '-1.7e308', '1.7976931348623157e308',
    "float('nan')", "float('inf')", "float('-inf')",
    "''", "'a'", "'ab'", "'abc'", "'abcd'", "'abcdef'", "'abc\\n'", "'a\\n'", "'\\na'", "'ab1'", "'1ab'", "'123'", "'1234'",
    "'12'", "'cd'", "'abx'", "'ABC'", "'é'", "'\\U0001F600'", "'a c'", "'x'*1000",
    "b''", "b'abc'", "bytearray(b'ab')", "memoryview(b'ab')",
    'datetime.datetime(2020, 1, 2, 3, 4, 5)', 'datetime.datetime(2020, 1, 2, tzinfo=UTC)',
    'datetime.datetime(2020, 1, 2, tzinfo=PLUS2)', 'datetime.date(2020, 1, 2)', "'2020-01-02T03:04:05Z'",
    '[]', '()', '[1]', '(1,)', '[1, 2]', '[1, 2, 3]', '[1, 2, 3, 4]', '[6]', '[5, 6]', "['a']", "['a', 'b']", "['a', 'B']",
    "['a', None]", '[None]', '[True]', '[True, False, True]', '[1.5]', '[0.0, -1.0]', '[[1]]', '[[1, 2]]', '[[1, 2, 3]]', '[[]]',
    '[[6]]', "[['a']]", '{}', "{'a': 1}", "{'a': 6}", "{'abcd': 1}", "{'A': 1}", '{1: 1}', "{'a': None}", "{'a': 'b'}", "{'a': True}",
    "{'a': 0.5}", "{None: 1}", 'set()', '{1}', 'object()', 'Foreign()', "iter([1])", 'range(2)', '1+2j',
]
GRID_ENV = {'datetime': datetime, 'UTC': UTC, 'PLUS2': PLUS2, 'Foreign': Foreign}


def grid_model():
    types = grid_types()
    fields = [{'name': 'f%d' % i, 'type': ('nullable', t) if False else t, 'doc': None, 'default': None, 'annots': []}
              for i, t in enumerate(types)]
    tags = [{'name': 't%d' % i, 'type': t, 'doc': None, 'annots': []} for i, t in enumerate(types)]
    api = {'namespaces': [{'name': 'grid', 'doc': None, 'doc2': None, 'imports': [], 'defs': [
        {'k': 'struct', 'name': 'Holder', 'parent': None, 'doc': None, 'fields': fields, 'subtypes': None,
         'examples': [], 'patch': 0},
        {'k': 'union', 'name': 'Choice', 'closed': False, 'parent': None, 'doc': None, 'tags': tags,
         'examples': [], 'patch': 0}]}], 'schema': None}
    return api, types


_grid = {}


def grid_pkg():
    if 'pkg' not in _grid:
        api, types = grid_model()
        specs, _ = render.render(api)
        _grid['pkg'] = pygen.PyPkg(specs)
        _grid['types'] = types
        _grid['idx'] = M.Index(api)
        _grid['specs'] = specs
    return _grid


def grid_enum(shard, nshards):
    types = grid_types()
    n = 0
    for ti in range(len(types)):
        for vi in range(len(GRID_VALUES)):
            if n % nshards == shard:
                yield (ti, vi)
            n += 1


def judge(rec, idx, t, value, entry, do, read, case, human):
    """One (type, value, entry point) observation against the reference predicate."""
    ss, bv, bb = pygen.stone_runtime()
    verdict, exp = ref_pred(idx, t, value)

    def viol(kind, what, detail):
        rec.violation('C08|%s|%s|%s' % (kind, entry, detail), what, case=case, human=human)
    try:
        do(value)
        outcome = 'accepted'
    except bv.ValidationError as e:
        outcome, err = 'rejected', e
    except Exception as e:
        outcome, err = 'escape', e
    if outcome == 'escape':
        if verdict != 'U':
            viol('wrong-exception', '%s raised instead of %s: %r' % (
                type(err).__name__, 'ValidationError' if verdict == 'R' else 'accepting the value', err),
                type(err).__name__ + ':' + (exp if verdict == 'R' else 'valid'))
        return verdict, outcome
    if verdict == 'A' and outcome == 'rejected':
        viol('rejected-valid', 'a value satisfying the declared type was refused: %s' % err, type_kind(t))
    elif verdict == 'R' and outcome == 'accepted':
        viol('accepted-invalid', 'a value violating the declared type was accepted (%s)' % exp, exp)
    elif verdict == 'A':
        try:
            got = read()
        except Exception as e:
            viol('readback-raised', 'reading back an accepted value raised %r' % (e,), type(e).__name__)
            return verdict, outcome
        if not readback_equal(exp, got):
            viol('readback-differs', 'accepted value reads back as %r, expected %r' % (got, exp), type_kind(t))
    return verdict, outcome


def type_kind(t):
    while t[0] == 'nullable':
        t = t[1]
    return t[1] if t[0] == 'prim' else t[0]


def run_grid(case, rec):
    ti, vi = case
    g = grid_pkg()
    t = g['types'][ti]
    expr = GRID_VALUES[vi]
    Holder = g['pkg'].cls('grid', 'Holder')
    Choice = g['pkg'].cls('grid', 'Choice')
    human = {'type': render.fmt_type(t, 'grid'), 'value': expr}
    outs = []
    for entry in ('setattr', 'union'):
        value = eval(expr, dict(GRID_ENV))
        holder = Holder()
        box = {}
        if entry == 'setattr':
            def do(v, holder=holder):
                setattr(holder, 'f%d' % ti, v)

            def read(holder=holder):
                return getattr(holder, 'f%d' % ti)
        else:
            def do(v, box=box):
                box['u'] = getattr(Choice, 't%d' % ti)(v)

            def read(box=box):
                return getattr(box['u'], 'get_t%d' % ti)()
        outs.append(judge(rec, g['idx'], t, value, entry, do, read, case, human))
    rec.case((ti, vi), True, classes=['grid:' + type_kind(t), 'verdict:' + outs[0][0]],
             sample=lambda: dict(human, verdict=outs[0][0], outcome=outs[0][1]))


# ---------------------------------------------------------------------------------------
# random composite types of generated specs

WRONG = ['None', 'True', '0', '1', '-1', '2**31', '2**63', '2**64', '-2**63-1', '1.5', "float('nan')", "float('inf')",
         '10**400', "''", "'abc'", "'abc\\n'", "b''", "b'x'", '[]', '()', '{}', 'set()', 'object()', 'Foreign()',
         'datetime.datetime(2020, 1, 1)', 'datetime.date(2020, 1, 1)', 'datetime.datetime(2020, 1, 2, tzinfo=PLUS2)',
         '{1: 1}', '[None]']


@st.composite
def member_values(draw):
    """Fields / tags of a generated spec with a valid value and a mutation recipe."""
    api = draw(gen.api_models(gen.Cfg(**pyrt.RT_CFG)))
    idx = M.Index(api)
    costs = values.Costs(idx)
    sites = []
    for n, d in idx.types():
        for m in (d['fields'] if d['k'] == 'struct' else d['tags']):
            if m['type'] is not None:
                sites.append((n, d['name'], d['k'], m['name'], m['type']))
    items = []
    # members of sibling unions (children of one parent) that share a name but not a type: construct both
    picks = []
    tagged = [x for x in sites if x[2] == 'union']
    for i, a in enumerate(tagged):
        for b in tagged[i + 1:]:
            da, db = idx.get(a[0], a[1]), idx.get(b[0], b[1])
            if a[3] == b[3] and a[4] != b[4] and da.get('parent') and da.get('parent') == db.get('parent'):
                picks += [a, b]
    for k in range(draw(st.integers(4, 12)) if sites else 0):
        site = picks[k] if k < min(len(picks), 6) else draw(st.sampled_from(sites))
        if costs.texpr(site[4]) >= values.Costs.INF:
            continue
        v = draw(values.value_for(idx, costs, site[4], fuel=draw(st.integers(0, 2))))
        mut = (draw(st.integers(0, 99)), draw(st.integers(0, 99)), draw(st.integers(0, len(WRONG) + 7)))
        items.append((site, v, mut))
    return {'api': api, 'items': items}


def node_paths(idx, t, obj, path=()):
    """Positions whose content the assignment validates (stops at user-type instances)."""
    out = [(path, t)]
    u = idx.unalias(t)
    while u[0] in ('nullable', 'alias'):
        u = idx.unalias(u[1]) if u[0] == 'nullable' else idx.unalias(u)
    if obj is None:
        return out
    if u[0] == 'list' and isinstance(obj, list):
        for i, x in enumerate(obj):
            out += node_paths(idx, u[1], x, path + (i,))
    elif u[0] == 'map' and isinstance(obj, dict):
        for k, x in obj.items():
            out += node_paths(idx, u[2], x, path + (k,))
    return out


def replace_at(obj, path, new):
    if not path:
        return new
    obj = list(obj) if isinstance(obj, list) else dict(obj)
    obj[path[0]] = replace_at(obj[path[0]], path[1:], new)
    return obj


def apply_mutation(pkg, idx, t, obj, mut, api):
    """-> (mutated python value, label)"""
    a, b, c = mut
    nodes = node_paths(idx, t, obj)
    path, nt = nodes[a % len(nodes)]
    cur = obj
    for p in path:
        cur = cur[p]
    u = idx.base(nt)
    if c < len(WRONG):
        return replace_at(obj, path, eval(WRONG[c], dict(GRID_ENV))), 'wrong:' + WRONG[c].split('(')[0]
    k = c - len(WRONG)
    if isinstance(cur, list):
        if k == 0:
            return replace_at(obj, path, tuple(cur)), 'tuple-for-list'
        if k == 1 and cur:
            return replace_at(obj, path, cur + [cur[0]] * (1 + b % 4)), 'grow-list'
        if k == 2:
            return replace_at(obj, path, cur[:-1]), 'shrink-list'
    if isinstance(cur, str):
        return replace_at(obj, path, [cur + 'x' * (1 + b % 40), cur[:-1], cur + '\n', ''][k % 4]), 'string-edit'
    if isinstance(cur, int) and not isinstance(cur, bool):
        return replace_at(obj, path, cur + [1, -1, 2**31, -2**31, 2**63, -2**64][k % 6]), 'number-bump'
    if isinstance(cur, dict):
        if k % 2:
            out = dict(cur)
            out[5] = next(iter(cur.values())) if cur else 1
            return replace_at(obj, path, out), 'int-key'
    if u[0] == 'ref':
        # instance of another / parent / child generated class
        others = [(n, d) for n, d in idx.types()]
        n, d = others[b % len(others)]
        try:
            inst = pkg.cls(n, d['name'])() if d['k'] == 'struct' else None
            if inst is None:
                voids = [x['name'] for _, _, x in idx.union_all_tags(n, d, False) if x['type'] is None]
                inst = getattr(pkg.cls(n, d['name']), voids[0]) if voids else None
        except Exception:
            inst = None
        if inst is not None:
            return replace_at(obj, path, inst), 'other-generated-instance'
    return replace_at(obj, path, None), 'wrong:None'


def run_members(case, rec):
    api = case['api']
    idx = M.Index(api)
    pkg, specs = pyrt.build(api, rec)
    if pkg is None:
        return
    try:
        for site, v, mut in case['items']:
            ns, owner, kind, member, t = site
            one = {'api': api, 'items': [(site, v, mut)]}
            try:
                valid = values.materialize(pkg, idx, t, v)
            except Exception as e:
                rec.note('materialize_failed(judged by C04)')
                continue
            cls = pkg.cls(ns, owner)
            for label, value in (('valid', valid),) + (apply_mutation(pkg, idx, t, valid, mut, api)[::-1],):
                human = {'files': specs, 'site': '%s.%s.%s' % (ns, owner, member), 'value': repr(value)[:300], 'how': label}
                box = {}
                if kind == 'struct':
                    inst = cls()

                    def do(x, inst=inst):
                        setattr(inst, member, x)

                    def read(inst=inst):
                        return getattr(inst, member)
                    entry = 'setattr'
                else:
                    def do(x, box=box):
                        box['u'] = getattr(cls, member)(x)

                    def read(box=box):
                        return getattr(box['u'], 'get_' + member)()
                    entry = 'union'
                verdict, outcome = judge(rec, idx, t, value, entry, do, read, one, human)
                rec.case(core.h64((site[:4], repr(value))), label != 'valid',
                         classes=['how:' + label.split(':')[0], 'verdict:' + verdict, 'shape:' + type_kind(idx.unalias(t))],
                         sample=lambda: {'site': human['site'], 'type': render.fmt_type(t, ns), 'value': human['value'],
                                         'how': label, 'verdict': verdict, 'outcome': outcome})
    finally:
        pkg.close()


# ---------------------------------------------------------------------------------------
# histories: operation sequences on one struct instance against a dict model

HIST_OPS = ['set', 'set', 'set', 'bad', 'bad', 'badeq', 'none', 'del', 'read', 'read', 'encode', 'reload', 'eq', 'init']


def equal_but_wrong(v):
    """Python values that compare == to v but have another type (True == 1 == 1.0, [1] == [1.0])."""
    out = []
    if isinstance(v, bool):
        out += [int(v), float(v)]
    elif isinstance(v, int):
        out += [float(v)] + ([bool(v)] if v in (0, 1) else [])
    elif isinstance(v, float) and v in (0.0, 1.0):
        out += [bool(v)]
    elif isinstance(v, list) and v:
        for i, x in enumerate(v):
            for y in equal_but_wrong(x):
                out.append(v[:i] + [y] + v[i + 1:])
        out.append(tuple(v))
    elif isinstance(v, dict) and v:
        k = next(iter(v))
        for y in equal_but_wrong(v[k]):
            out.append(dict(v, **{k: y}))
    return out


@st.composite
def object_histories(draw):
    api = draw(gen.api_models(gen.Cfg(**pyrt.RT_CFG)))
    idx = M.Index(api)
    costs = values.Costs(idx)
    structs = [(n, d) for n, d in idx.types(('struct',))
               if not d.get('subtypes') and idx.struct_all_fields(n, d)]
    runs = []
    for _ in range(draw(st.integers(1, 3)) if structs else 0):
        n, d = draw(st.sampled_from(structs))
        fields = [f for _, _, f in idx.struct_all_fields(n, d) if costs.texpr(f['type']) < values.Costs.INF]
        if not fields:
            continue
        ops = []
        if draw(st.integers(0, 9)) < 6:
            # start from a complete instance so that encode / reload / eq have something to judge
            for f in fields:
                if not idx.is_optional(f):
                    v = draw(values.value_for(idx, costs, f['type'], fuel=draw(st.integers(0, 1))))
                    if values.is_complete(v):
                        ops.append(('set', f['name'], v, None))
        for _ in range(draw(st.integers(4, 18))):
            op = draw(st.sampled_from(HIST_OPS))
            f = draw(st.sampled_from(fields))
            if op in ('set', 'bad'):
                v = draw(values.value_for(idx, costs, f['type'], fuel=draw(st.integers(0, 2))))
                if not values.is_complete(v):
                    continue
                mut = None
                if op == 'bad':
                    mut = (draw(st.integers(0, 99)), draw(st.integers(0, 99)), draw(st.integers(0, len(WRONG) + 7)))
                ops.append((op, f['name'], v, mut))
            elif op == 'reload':
                ops.append((op, draw(st.booleans())))
            elif op in ('encode', 'eq', 'init'):
                ops.append((op,))
            elif op == 'badeq':
                ops.append((op, f['name'], draw(st.integers(0, 99))))
            else:
                ops.append((op, f['name']))
        runs.append(((n, d['name']), ops))
    return {'api': api, 'runs': runs}


def diff_class(diff):
    """Walker difference -> coarse root-cause class (no names, no values)."""
    for key, cls in (('expected unset', 'set-but-expected-unset'), ('expected set, is unset', 'unset-but-expected-set'),
                     ('expected instance of', 'wrong-class'), ('expected union instance', 'wrong-class'),
                     ('list mismatch', 'list-differs'), ('map keys mismatch', 'map-differs'),
                     ('expected tag', 'tag-differs'), ('expected None', 'not-none'), ('got None', 'none')):
        if key in diff:
            return cls
    return 'value-differs'


def _default_matches(bb, f, got):
    kind, dv = f['default']
    if kind == 'tag':
        return isinstance(got, bb.Union) and got._tag == dv and got._value is None
    if isinstance(dv, bool) or isinstance(got, bool):
        return type(got) is bool and got == dv
    if isinstance(dv, (int, float)):
        return isinstance(got, (int, float)) and float(got) == float(dv)
    return type(got) is type(dv) and got == dv


def run_histories(case, rec):
    import copy
    import json
    from .. import ref_json
    api = case['api']
    idx = M.Index(api)
    pkg, specs = pyrt.build(api, rec)
    if pkg is None:
        return
    ss, bv, bb = pygen.stone_runtime()
    try:
        for (ns, name), ops in case['runs']:
            d = idx.get(ns, name)
            t = ('ref', ns, name)
            cls = pkg.cls(ns, name)
            validator = pkg.validator(ns, name)
            fdef = {f['name']: f for _, _, f in idx.struct_all_fields(ns, d)}
            required = [n_ for n_, f in fdef.items() if not idx.is_optional(f)]
            one = {'api': api, 'runs': [((ns, name), ops)]}
            inst = cls()
            model = {}
            trace = []
            seen = set()

            def viol(kind, what, detail=''):
                rec.violation('C08|history|%s|%s' % (kind, detail), '%s.%s: %s; history: %s' % (ns, name, what, ' ; '.join(trace)[-700:]),
                              case=one, human={'files': specs, 'struct': '%s.%s' % (ns, name), 'history': list(trace)})

            def complete():
                return all(r in model for r in required)

            def abstract():
                return ('struct', (ns, name), dict(model))
            ok = True
            for op in ops:
                kind = op[0]
                fname = op[1] if len(op) > 1 and kind not in ('reload',) else None
                f = fdef.get(fname) if fname else None
                if kind in ('set', 'bad'):
                    try:
                        valid = values.materialize(pkg, idx, f['type'], op[2])
                    except Exception:
                        rec.note('materialize_failed(judged by C04)')
                        continue
                if kind == 'set':
                    trace.append('set %s=%s' % (fname, repr(valid)[:60]))
                    try:
                        setattr(inst, fname, valid)
                    except Exception as e:
                        viol('rejected-valid', 'assigning a valid value raised %r' % (e,), type_kind(f['type']))
                        ok = False
                        break
                    if op[2] is None:
                        model.pop(fname, None)
                    else:
                        model[fname] = op[2]
                elif kind == 'bad':
                    value, label = apply_mutation(pkg, idx, f['type'], valid, op[3], api)
                    verdict, why = ref_pred(idx, f['type'], value)
                    if verdict != 'R':
                        rec.note('history_mutation_not_invalid')
                        continue
                    trace.append('set %s=<invalid:%s>' % (fname, label))
                    try:
                        setattr(inst, fname, value)
                        viol('accepted-invalid', 'a value violating the declared type was accepted (%s)' % why, why)
                        ok = False
                        break
                    except bv.ValidationError:
                        pass
                    except Exception as e:
                        viol('wrong-exception', '%s raised instead of ValidationError: %r' % (type(e).__name__, e),
                             type(e).__name__ + ':' + why)
                        ok = False
                        break
                elif kind == 'badeq':
                    # a value that is == to what the field holds but violates the declared type
                    if fname not in model:
                        continue
                    try:
                        held = getattr(inst, fname)
                    except Exception:
                        continue
                    cands = [c for c in equal_but_wrong(held) if ref_pred(idx, f['type'], c)[0] == 'R']
                    if not cands:
                        continue
                    value = cands[op[2] % len(cands)]
                    why = ref_pred(idx, f['type'], value)[1]
                    trace.append('set %s=<== to the held value, wrong type: %r>' % (fname, value))
                    try:
                        setattr(inst, fname, value)
                        viol('accepted-invalid', 'a value equal to the held one but violating the declared type was '
                             'accepted (%s): %r over %r' % (why, value, held), 'equal-to-held|' + why)
                        ok = False
                        break
                    except bv.ValidationError:
                        pass
                    except Exception as e:
                        viol('wrong-exception', '%s raised instead of ValidationError: %r' % (type(e).__name__, e),
                             type(e).__name__ + ':' + why)
                        ok = False
                        break
                elif kind == 'none':
                    verdict, why = ref_pred(idx, f['type'], None)
                    if verdict == 'U':
                        continue
                    trace.append('set %s=None' % fname)
                    try:
                        setattr(inst, fname, None)
                        if verdict == 'R':
                            viol('accepted-invalid', 'None was accepted for a non-nullable field', 'none')
                            ok = False
                            break
                        model.pop(fname, None)
                    except bv.ValidationError as e:
                        if verdict == 'A':
                            viol('rejected-valid', 'None was refused for a nullable field: %s' % e, 'none')
                            ok = False
                            break
                    except Exception as e:
                        viol('wrong-exception', 'assigning None raised %r' % (e,), type(e).__name__ + ':none')
                        ok = False
                        break
                elif kind == 'del':
                    trace.append('del %s' % fname)
                    try:
                        delattr(inst, fname)
                    except Exception as e:
                        viol('delete-raised', 'deleting a field raised %r' % (e,), type(e).__name__)
                        ok = False
                        break
                    model.pop(fname, None)
                elif kind == 'read':
                    trace.append('read %s' % fname)
                    try:
                        got = getattr(inst, fname)
                        raised = None
                    except AttributeError as e:
                        got, raised = None, e
                    except Exception as e:
                        viol('read-raised', 'reading a field raised %r' % (e,), type(e).__name__)
                        ok = False
                        break
                    if fname in model:
                        bad = 'raised %r' % (raised,) if raised else values.same(idx, f['type'], got, model[fname])
                        if bad:
                            viol('read-differs', 'set field reads back differently: %s' % bad, type_kind(f['type']))
                            ok = False
                            break
                    elif idx.is_nullable(f['type']):
                        if raised or got is not None:
                            viol('read-differs', 'unset nullable field reads %r / %r, expected None' % (got, raised), 'unset-nullable')
                            ok = False
                            break
                    elif f.get('default') is not None:
                        b = idx.base(f['type'])
                        if b[0] == 'prim' and b[1] in ('Bytes', 'Timestamp'):
                            rec.note('bytes_timestamp_default_read(judged by C10)')
                        elif f['default'][0] == 'lit' and M.lexer_rewrites(f['default'][1]):
                            rec.note('default_literal_rewritten_by_lexer(judged by C02)')
                        elif raised or not _default_matches(bb, f, got):
                            viol('read-differs', 'unset defaulted field reads %r / %r, declared default %r' % (
                                got, raised, f['default']), 'unset-default')
                            ok = False
                            break
                    elif raised is None:
                        viol('read-differs', 'unset required field reads %r instead of raising AttributeError' % (got,), 'unset-required')
                        ok = False
                        break
                elif kind in ('encode', 'reload'):
                    trace.append(kind if kind == 'encode' else 'reload(strict=%s)' % op[1])
                    try:
                        enc = ss.json_compat_obj_encode(validator, inst)
                        if not complete():
                            viol('encoded-incomplete', 'an instance with an unset required field was encoded: %s' % json.dumps(enc)[:200], '')
                            ok = False
                            break
                    except bv.ValidationError as e:
                        if complete():
                            viol('encode-rejects', 'a complete instance was refused by the encoder: %s' % e, pyrt.path_kind(str(e)))
                            ok = False
                            break
                        continue
                    except Exception as e:
                        viol('encode-raised', 'encoding raised %r' % (e,), core.stone_frame_sig(e))
                        ok = False
                        break
                    exp = ref_json.encode(idx, t, abstract())
                    if not ref_json.json_equal(json.loads(json.dumps(enc)), exp):
                        viol('encode-differs', 'encoding %s, the state built so far prescribes %s' % (
                            json.dumps(enc)[:300], json.dumps(exp)[:300]), '')
                        ok = False
                        break
                    if kind == 'reload':
                        try:
                            inst = ss.json_compat_obj_decode(validator, copy.deepcopy(enc), strict=op[1])
                        except Exception as e:
                            viol('reload-raised', 'decoding the encoding of the current state raised %r' % (e,),
                                 core.stone_frame_sig(e))
                            ok = False
                            break
                        model = dict(values.norm_roundtrip(idx, t, abstract())[2])
                elif kind == 'eq':
                    if not complete():
                        continue      # == on an instance with unset required fields is not claimed
                    trace.append('eq')
                    try:
                        fresh = values.materialize(pkg, idx, t, abstract())
                        if not (inst == fresh) or (inst != fresh):
                            viol('eq-differs', 'the instance is not == to a fresh instance holding the same fields', '')
                            ok = False
                            break
                    except Exception as e:
                        viol('eq-raised', 'building / comparing a fresh instance raised %r' % (e,), type(e).__name__)
                        ok = False
                        break
                elif kind == 'init':
                    trace.append('init(**state)')
                    try:
                        kw = {n_: values.materialize(pkg, idx, fdef[n_]['type'], v) for n_, v in model.items()}
                        inst = cls(**kw)
                    except Exception as e:
                        viol('init-raised', 'constructing from the current fields raised %r' % (e,), type(e).__name__)
                        ok = False
                        break
                seen.add(kind)
                diff = values.same(idx, t, inst, abstract())
                if diff:
                    viol('state-differs', 'after the history the instance differs from the model: %s' % diff,
                         kind + '|' + diff_class(diff))
                    ok = False
                    break
            nontriv = ok and len(seen) >= 3 and bool(seen & {'bad', 'badeq', 'del', 'none'}) and bool(seen & {'read', 'encode', 'reload', 'eq'})
            rec.case(core.h64((repr(specs), ns, name, repr(ops))), nontriv,
                     classes=['hist:' + k for k in sorted(seen)] + ['hist_len:%d' % min(len(trace) // 4 * 4, 16)],
                     sample=lambda: {'struct': '%s.%s' % (ns, name), 'history': list(trace)[:12]})
    finally:
        pkg.close()


def parts(ctx):
    return [Part('grid', run_grid, enumerate=grid_enum, exhaustive=True),
            Part('members', run_members, strategy=member_values(), n=ctx.n(1200, 10000), budget_s=ctx.n(120, 3000)),
            Part('histories', run_histories, strategy=object_histories(), n=ctx.n(1600, 20000), budget_s=ctx.n(120, 3000))]
