"""C17 - Swift and Objective-C backends handle every spec and declare the whole API.

No Swift / Objective-C compiler exists in the sandbox, so the check works at the level the
statement is written at: (a) every backend completes, (b) every generated file passes a
lexical scanner of its language, (c) a declaration scanner finds each namespace, struct,
union, field, tag, serializer and route exactly once under the naming scheme (re-implemented
below from the conventions: PascalCase types, camelCase members, `Ns.Type`, `DBX<Ns><Type>`,
`DB<NS><Type>`), (d) every user-type reference is declared and no alias name survives.
Expected names come from the model only.
"""
import collections
import copy
import json
import re
import shutil
import tempfile

from hypothesis import strategies as st

from .. import core, gen, render, backends, front, model as M
from ..core import Part
from .c09 import tb_text_sig

RULE = ('generated specs with the auth/host/style route schema (every primitive, List/Map/Nullable nesting, '
        'inheritance, enumerated subtypes, defaults incl. quoting characters, cross-namespace references, '
        'routes of style rpc/upload/download) x {swift_types, swift_types --objc, swift_client, swift_client '
        '--objc, obj_c_types, obj_c_client}: backend completes; every generated file passes a lexical scanner '
        '(strings with escapes and \\( ) interpolation, @"..." and character literals, line / block comments, '
        'balanced () [] {}); a declaration scanner finds each namespace, struct, union, field, tag, serializer '
        'and route exactly once under the naming scheme derived from the model; declared field / tag / '
        'serializer types have the container shape and user-type references of the model; every Ns.Type / '
        'DBX<Ns><Type> / DB<NS><Type> reference is declared; no alias name occurs as a code token. '
        'non-trivial = spec with a map or nested list of user types, a nullable user type, or a string default '
        'with quoting characters; distinct by (spec, backend config).')
ASSUMPTIONS = ['No Swift / Objective-C compiler in the sandbox: nothing beyond the lexical / declaration level is claimed.',
               'Identifiers follow the documented conventions; specs whose names hit a reserved word of these '
               'backends (route names starting with copy/new, ...) or collide under name concatenation '
               '(union Shape + tag point vs struct ShapePoint) are not generated.',
               'Route argument / result / error types are struct, union or Void (what the client backends are written for).',
               'obj_c_client is run with -w user: only routes whose auth includes user / noauth are expected in it.']

C17_CFG = dict(schema='swift', route_io_any=False, max_ns=3, max_types=6, max_fields=4, max_routes=3,
               examples=False, patches=False, custom_annotations=False)

# ---------------------------------------------------------------------------------------
# naming scheme, from the model


def words(name):
    out = []
    for w in re.split(r'[-_/]+', name):
        if w:
            out.extend(re.findall(r'[A-Z][a-z0-9]*|[a-z0-9]+', w) or [w])
    return out


def pascal(name):
    return ''.join(w[:1].upper() + w[1:].lower() for w in words(name))


def camel(name):
    p = pascal(name)
    return p[:1].lower() + p[1:]


def ns_caps(name):
    return pascal(name).upper()


def swift_route(r):
    return camel(r['name'] if r['version'] == 1 else '%s_v%d' % (r['name'], r['version']))


def objc_route_func(r):
    return camel(r['name']) + ('' if r['version'] == 1 else 'V%d' % r['version'])


def objc_route_var(ns, r):
    return 'DB%s%s%s' % (ns_caps(ns), pascal(r['name']), '' if r['version'] == 1 else 'V%d' % r['version'])


def dbx(ns, name):
    return 'DBX%s%s' % (pascal(ns), pascal(name))


def db(ns, name):
    return 'DB%s%s' % (ns_caps(ns), pascal(name))


# words these backends suffix / prefix (swift_helpers / obj_c_helpers): avoided, not modelled
RESERVED = {'description', 'bool', 'nsdata', 'nsdatafloat', 'float', 'double', 'int32', 'int64', 'list', 'string',
            'timestamp', 'uint32', 'uint64', 'void', 'associatedtype', 'class', 'deinit', 'enum', 'extension',
            'func', 'import', 'init', 'inout', 'internal', 'let', 'operator', 'private', 'protocol', 'public',
            'static', 'struct', 'subscript', 'typealias', 'var', 'default', 'hash', 'client', 'auto', 'else',
            'long', 'switch', 'break', 'register', 'typedef', 'case', 'extern', 'return', 'union', 'char',
            'short', 'unsigned', 'const', 'for', 'signed', 'continue', 'goto', 'sizeof', 'volatile', 'if',
            'while', 'do', 'int', '_packed', 'interface', 'implementation', 'nsobject', 'nsinteger', 'nsnumber',
            'cgfloat', 'property', 'nonatomic', 'retain', 'strong', 'weak', 'unsafe_unretained', 'readwrite',
            'id', 'delete', 'boolvalue', 'floatvalue', 'intvalue',
            # members the generated classes themselves define
            'swift', 'subswift', 'tag', 'tagname', 'self', 'super'}
RESERVED_PREFIXES = ('copy', 'new')


def reserved_hits(api):
    out = []
    for n in api['namespaces']:
        names = [n['name']]
        for d in n['defs']:
            if d['k'] in ('struct', 'union', 'route'):
                names.append(d['name'])
                for m in d.get('fields') or d.get('tags') or []:
                    names.append(m['name'])
                if d.get('subtypes'):
                    names += [t for t, _ in d['subtypes']['items']]
        for x in names:
            c = camel(x).lower()
            if c in RESERVED or c.startswith(RESERVED_PREFIXES):
                out.append(x)
    return out


def name_collisions(api):
    """Names that coincide under the backends' concatenating schemes (inherent to the scheme, not judged)."""
    idx = M.Index(api)
    pools = collections.defaultdict(list)
    for n in api['namespaces']:
        ns = n['name']
        pools['swift-ns'].append(pascal(ns))
        pools['dbx'].append(dbx(ns, '') + 'Routes')
        pools['db'] += ['DB%sRouteObjects' % ns_caps(ns), 'DB%sUserAuthRoutes' % ns_caps(ns)]
        for d in n['defs']:
            if d['k'] in ('struct', 'union'):
                pools['swift-' + ns] += [pascal(d['name']), pascal(d['name']) + 'Serializer']
                pools['dbx'].append(dbx(ns, d['name']))
                pools['db'] += [db(ns, d['name']), db(ns, d['name']) + 'Serializer']
                if d['k'] == 'union':
                    pools['db'].append(db(ns, d['name']) + 'Tag')
                    for _, _, t in idx.union_all_tags(ns, d):
                        pools['dbx'].append(dbx(ns, d['name']) + pascal(t['name']))
                        pools['db'].append(db(ns, d['name']) + pascal(t['name']))
                        pools['tags-%s.%s' % (ns, d['name'])].append(camel(t['name']))
                else:
                    for _, _, f in idx.struct_all_fields(ns, d):
                        pools['fields-%s.%s' % (ns, d['name'])].append(camel(f['name']))
            elif d['k'] == 'route':
                pools['swift-' + ns].append(swift_route(d))
                pools['routes-' + ns].append(objc_route_func(d))
                pools['db'].append(objc_route_var(ns, d))
                for req in ('RpcRequest', 'UploadRequest', 'DownloadRequestFile', 'DownloadRequestMemory'):
                    pools['dbx'].append(dbx(ns, d['name']) + req + ('' if d['version'] == 1 else 'V%d' % d['version']))
    out = []
    for k, v in pools.items():
        c = collections.Counter(v)
        out += ['%s:%s' % (k, x) for x, cnt in c.items() if cnt > 1]
    return out


def in_domain(api):
    return not reserved_hits(api) and not name_collisions(api)


# ---------------------------------------------------------------------------------------
# lexical scanners

class Scan:
    """Tokens, bracket matching and comment-free text of one source file."""

    def __init__(self, text, lang):
        self.text = text
        self.lang = lang
        self.tokens = []          # (kind, value, pos)   kind: id | num | str | op
        self.errors = []          # (kind, pos)
        self.match = {}           # position of an opening bracket -> position of its closer
        self.stack = []
        self._code = list(text)   # comments blanked
        self._nostr = None
        n = len(text)
        i, _ = self._run(0, None)
        assert i >= n
        for ch, pos in self.stack:
            self.errors.append(('unclosed-bracket', pos))
        self.code = ''.join(self._code)
        ns = list(self.code)
        for kind, val, pos in self.tokens:
            if kind == 'str':
                for j in range(pos + 1, min(pos + 1 + len(val), n)):
                    if ns[j] != '\n':
                        ns[j] = ' '
        self.nostr = ''.join(ns)       # comments and string contents blanked (same offsets)
        if any(k in ('unterminated-string', 'unterminated-comment', 'unterminated-char') for k, _ in self.errors):
            # bracket imbalance after a broken literal is a consequence, not a second defect
            self.errors = [e for e in self.errors if e[0] not in ('unbalanced-bracket', 'unclosed-bracket')]

    def _blank(self, a, b):
        for j in range(a, b):
            if self._code[j] != '\n':
                self._code[j] = ' '

    def _run(self, i, interp_base):
        """Scan code from i; with interp_base set, stop after the `)` closing a Swift \\( ) interpolation.
        Returns (index, closed)."""
        text, n, lang = self.text, len(self.text), self.lang
        toks, stack = self.tokens, self.stack
        while i < n:
            c = text[i]
            if c == '\n' and interp_base is not None:
                del stack[interp_base:]
                return i, False
            if c in ' \t\r\n':
                i += 1
                continue
            if c == '/' and text.startswith('//', i):
                j = text.find('\n', i)
                j = n if j < 0 else j
                self._blank(i, j)
                i = j
                continue
            if c == '/' and text.startswith('/*', i):
                j = i + 2
                depth = 1
                while j < n and depth:
                    if text.startswith('*/', j):
                        depth -= 1
                        j += 2
                    elif lang == 'swift' and text.startswith('/*', j):
                        depth += 1
                        j += 2
                    else:
                        j += 1
                if depth:
                    self.errors.append(('unterminated-comment', i))
                self._blank(i, j)
                i = j
                continue
            if c == '"' or (lang == 'objc' and c == '@' and text.startswith('@"', i)):
                if c == '@':
                    toks.append(('op', '@', i))
                    i += 1
                if lang == 'swift' and text.startswith('"""', i):
                    eol = text.find('\n', i)
                    eol = n if eol < 0 else eol
                    if text[i + 3:eol].strip():
                        # a multi-line literal must open at the end of its line
                        self.errors.append(('unterminated-string', i))
                        toks.append(('str', text[i + 1:eol], i))
                        i = eol
                        continue
                    j = text.find('"""', i + 3)
                    while j > 0 and text[j - 1] == '\\':
                        j = text.find('"""', j + 1)
                    if j < 0:
                        self.errors.append(('unterminated-string', i))
                        return n, False
                    toks.append(('str', text[i + 3:j], i + 2))
                    i = j + 3
                else:
                    i = self._string(i)
                continue
            if lang == 'objc' and c == "'":
                j = i + 1
                while j < n and text[j] != "'" and text[j] != '\n':
                    j += 2 if text[j] == '\\' else 1
                if j >= n or text[j] != "'":
                    self.errors.append(('unterminated-char', i))
                    i = j
                else:
                    toks.append(('num', text[i:j + 1], i))
                    i = j + 1
                continue
            if lang == 'objc' and c == '#' and not text[text.rfind('\n', 0, i) + 1:i].strip():
                m = re.compile(r'#\s*pragma\b[^\n]*').match(text, i)
                if m:
                    self._blank(i, m.end())
                    i = m.end()
                    continue
            if c in '([{':
                stack.append((c, i))
                toks.append(('op', c, i))
                i += 1
                continue
            if c in ')]}':
                if interp_base is not None and c == ')' and len(stack) == interp_base:
                    return i + 1, True
                want = {')': '(', ']': '[', '}': '{'}[c]
                floor = interp_base or 0
                if len(stack) > floor and stack[-1][0] == want:
                    self.match[stack.pop()[1]] = i
                else:
                    self.errors.append(('unbalanced-bracket', i))
                    for k in range(len(stack) - 1, floor - 1, -1):
                        if stack[k][0] == want:
                            self.match[stack[k][1]] = i
                            del stack[k:]
                            break
                toks.append(('op', c, i))
                i += 1
                continue
            if c == '_' or c == '$' or c.isalpha():
                j = i + 1
                while j < n and (text[j] == '_' or text[j] == '$' or text[j].isalnum()):
                    j += 1
                toks.append(('id', text[i:j], i))
                i = j
                continue
            if c.isdigit():
                m = _NUM.match(text, i)
                toks.append(('num', m.group(0), i))
                i = m.end()
                continue
            if lang == 'swift' and c in "'\\":
                self.errors.append(('stray-character', i))
            toks.append(('op', c, i))
            i += 1
        return n, False

    def _string(self, i):
        """i at the opening quote of a single-line literal; returns the index after it."""
        text, n, lang = self.text, len(self.text), self.lang
        start = i
        i += 1
        while i < n:
            c = text[i]
            if c == '"':
                self.tokens.append(('str', text[start + 1:i], start))
                return i + 1
            if c == '\n':
                break
            if c == '\\':
                d = text[i + 1] if i + 1 < n else ''
                if lang == 'swift':
                    if d == '(':
                        i, ok = self._run(i + 2, len(self.stack))
                        if not ok:
                            break
                        continue
                    if d and d in '0\\tnr"\'':
                        i += 2
                        continue
                    if d == 'u' and text.startswith('{', i + 2) and text.find('}', i) > 0:
                        i = text.find('}', i) + 1
                        continue
                    if d == '\n' or d == '':
                        break
                    self.errors.append(('invalid-escape', i))
                    i += 2
                    continue
                if d == '':
                    break
                i += 2          # C: any escaped character, incl. backslash-newline continuation
                continue
            i += 1
        self.errors.append(('unterminated-string', start))
        self.tokens.append(('str', text[start + 1:i], start))
        return i

    # -- helpers for the declaration scanners ------------------------------------------------
    def line_at(self, pos):
        a = self.text.rfind('\n', 0, pos) + 1
        b = self.text.find('\n', pos)
        return self.text[a:b if b >= 0 else len(self.text)]

    def body_after(self, pos):
        """(start, end) of the { } block whose `{` is the first one at or after pos; None if absent."""
        j = self.nostr.find('{', pos)
        if j < 0 or j not in self.match:
            return None
        return j + 1, self.match[j]


_NUM = re.compile(r'0[xX][0-9a-fA-F_]+|\d[\d_]*(\.\d[\d_]*)?([eE][+-]?\d+)?[A-Za-z]*')
_SCAN_CACHE = {}


def scan_cached(text, lang):
    key = (lang, core.h64(text.encode('utf-8', 'surrogatepass')))
    if key not in _SCAN_CACHE:
        _SCAN_CACHE[key] = Scan(text, lang)
    return _SCAN_CACHE[key]


# ---------------------------------------------------------------------------------------
# type expressions: model shape vs. what a declaration spells

SWIFT_PRIM = {'Boolean': 'Bool', 'Bytes': 'Data', 'Float32': 'Float', 'Float64': 'Double', 'Int32': 'Int32',
              'Int64': 'Int64', 'String': 'String', 'Timestamp': 'Date', 'UInt32': 'UInt32', 'UInt64': 'UInt64',
              'Void': 'Void'}
SWIFT_PRIM_REV = {v: k for k, v in SWIFT_PRIM.items()}
# StoneSerializers.swift: `Serialization._<X>Serializer`
SERIAL_PRIM_REV = {'Bool': 'Boolean', 'NSData': 'Bytes', 'Float': 'Float32', 'Double': 'Float64', 'Int32': 'Int32',
                   'Int64': 'Int64', 'String': 'String', 'UInt32': 'UInt32', 'UInt64': 'UInt64', 'Void': 'Void'}


def mshape(idx, t, fmt=False):
    """Model type -> shape: ('prim', name[, format]) | ('ref', ns, name) | ('list', s) | ('map', s) | ('nullable', s)."""
    k = t[0]
    if k == 'alias':
        return mshape(idx, idx.get(t[1], t[2])['type'], fmt)
    if k == 'prim':
        if fmt and t[1] == 'Timestamp':
            return ('prim', 'Timestamp', M.pparams(t)['format'])
        return ('prim', t[1])
    if k == 'nullable':
        inner = mshape(idx, t[1], fmt)
        return inner if inner[0] == 'nullable' else ('nullable', inner)
    if k == 'list':
        return ('list', mshape(idx, t[1], fmt))
    if k == 'map':
        return ('map', mshape(idx, t[2], fmt))
    return ('ref', t[1], t[2])


def skeleton(s, ref):
    """Shape without nullability and primitive names (what the Objective-C flavoured spellings preserve)."""
    k = s[0]
    if k == 'nullable':
        return skeleton(s[1], ref)
    if k in ('list', 'map'):
        return (k, skeleton(s[1], ref))
    if k == 'ref':
        return ('ref', ref(s[1], s[2]))
    return (k,) if k == '?' else ('prim',)


class Cur:
    def __init__(self, s):
        self.s = s
        self.i = 0

    def ws(self):
        while self.i < len(self.s) and self.s[self.i] in ' \t':
            self.i += 1

    def eat(self, lit):
        self.ws()
        if self.s.startswith(lit, self.i):
            self.i += len(lit)
            return True
        return False

    def ident(self):
        self.ws()
        m = re.compile(r'[A-Za-z_]\w*').match(self.s, self.i)
        if not m:
            return None
        self.i = m.end()
        return m.group(0)

    def done(self):
        self.ws()
        return self.i >= len(self.s)


def _swift_type(c):
    a = c.ident()
    if a is None:
        return None
    name = [a]
    while c.eat('.'):
        b = c.ident()
        if b is None:
            return None
        name.append(b)
    args = []
    if c.eat('<'):
        while True:
            x = _swift_type(c)
            if x is None:
                return None
            args.append(x)
            if c.eat(','):
                continue
            if c.eat('>'):
                break
            return None
    if len(name) == 2 and not args:
        sh = ('ref', name[0], name[1])
    elif name == ['Array'] and len(args) == 1:
        sh = ('list', args[0])
    elif name == ['Dictionary'] and len(args) == 2:
        sh = ('map', args[1])
    elif len(name) == 1 and not args:
        sh = ('name', name[0])
    else:
        return None
    while c.eat('?'):
        if sh[0] != 'nullable':
            sh = ('nullable', sh)
    return sh


def parse_swift_type(text):
    """'Dictionary<String, Array<Files.Meta>?>' -> shape with ('name', X) leaves; None if it is not a type."""
    c = Cur(text.strip())
    sh = _swift_type(c)
    return sh if sh is not None and c.done() else None


def _objc_type(c):
    c.eat('nullable')
    a = c.ident()
    if a is None:
        return None
    if a in ('unsigned', 'signed') and c.ident() is None:
        return None
    args = []
    if c.eat('<'):
        while True:
            x = _objc_type(c)
            if x is None:
                return None
            args.append(x)
            if c.eat(','):
                continue
            if c.eat('>'):
                break
            return None
    while c.eat('*'):
        pass
    if a == 'NSArray' and len(args) == 1:
        return ('list', args[0])
    if a == 'NSDictionary' and len(args) == 2:
        return ('map', args[1])
    if args:
        return None
    return ('name', a)


def parse_objc_type(text):
    c = Cur(text.strip())
    sh = _objc_type(c)
    return sh if sh is not None and c.done() else None


def parse_swift_serial(text):
    """'ArraySerializer(NullableSerializer(Files.MetaSerializer()))' -> shape in model vocabulary."""
    s = text.strip()
    m = re.fullmatch(r'Serialization\._(\w+)Serializer', s)
    if m:
        return ('prim', SERIAL_PRIM_REV[m.group(1)]) if m.group(1) in SERIAL_PRIM_REV else ('?', '_' + m.group(1))
    m = re.fullmatch(r'(\w+)\.(\w+)Serializer\(\)', s)
    if m:
        return ('ref', m.group(1), m.group(2))
    m = re.fullmatch(r'(ArraySerializer|DictionarySerializer|NullableSerializer)\((.*)\)', s)
    if m:
        inner = parse_swift_serial(m.group(2))
        return ({'A': 'list', 'D': 'map', 'N': 'nullable'}[m.group(1)[0]], inner)
    m = re.fullmatch(r'NSDateSerializer\("(.*)"\)', s)
    if m:
        return ('prim', 'Timestamp', m.group(1))
    m = re.fullmatch(r'Serialization\.(\w+)', s)
    return ('?', m.group(1) if m else 'expr')


def names_to_prims(sh, table):
    """('name', X) leaves -> ('prim', stone name) through `table`, ('?', X) when unknown."""
    k = sh[0]
    if k == 'name':
        return ('prim', table[sh[1]]) if sh[1] in table else ('?', sh[1])
    if k in ('list', 'map', 'nullable'):
        return (k, names_to_prims(sh[1], table))
    return sh


def names_to_skeleton(sh, prefix):
    k = sh[0]
    if k == 'name':
        return ('ref', sh[1]) if sh[1].startswith(prefix) else ('prim',)
    if k == 'nullable':
        return names_to_skeleton(sh[1], prefix)
    if k in ('list', 'map'):
        return (k, names_to_skeleton(sh[1], prefix))
    return ('?',)


def shape_diff(exp, got, refeq, path=''):
    """None when equal, else a coarse description without generated identifiers."""
    if exp[0] != got[0]:
        return '%s expected %s found %s' % (path or 'top', exp[0], got[0])
    k = exp[0]
    if k in ('list', 'map', 'nullable'):
        return shape_diff(exp[1], got[1], refeq, (path + '>' if path else '') + k)
    if k == 'ref':
        return None if refeq(exp, got) else '%s other user type' % (path or 'top')
    if k == 'prim':
        if exp[1:] != got[1:]:
            if exp[1] != got[1]:
                return '%s expected %s found %s' % (path or 'top', exp[1], got[1])
            return '%s %s parameter differs' % (path or 'top', exp[1])
    return None


def leaves(sh):
    if sh[0] in ('list', 'map', 'nullable'):
        yield from leaves(sh[1])
    else:
        yield sh


def swift_refeq(exp, got):
    return pascal(exp[1]) == got[1] and pascal(exp[2]) == got[2]


# ---------------------------------------------------------------------------------------
# per-(case, backend) context

def depth_at(sc, pos):
    """Brace depth of a position (comments and string contents ignored)."""
    d = getattr(sc, '_depth', None)
    if d is None:
        d = [0] * (len(sc.nostr) + 1)
        cur = 0
        for i, ch in enumerate(sc.nostr):
            d[i] = cur
            if ch == '{':
                cur += 1
            elif ch == '}':
                cur -= 1
                d[i] = cur
        d[len(sc.nostr)] = cur
        sc._depth = d
    return d[pos]


class Cx:
    def __init__(self, api, backend, rec, case, specs):
        self.api = api
        self.idx = M.Index(api)
        self.backend = backend
        self.rec = rec
        self.case = case
        self.specs = specs
        self.ns_names = [n['name'] for n in api['namespaces']]
        type_names = {d['name'] for _, d in self.idx.types()}
        self.alias_names = {d['name'] for _, d in self.idx.types(('alias',))} - type_names
        # leaves spelled like an alias are attributed to the alias check, also when a type elsewhere shares the name
        self.alias_all = {d['name'] for _, d in self.idx.types(('alias',))}
        self.alias_names -= {pascal(n) for n in self.ns_names}      # `alias Team` vs namespace class Team
        self.schema = {f['name']: f for f in (api.get('schema') or {}).get('fields', [])}
        self.model_words = set()      # identifiers of this spec: never part of a signature
        for n in api['namespaces']:
            self.model_words |= {camel(n['name']), pascal(n['name'])}
            for d in n['defs']:
                if d.get('name'):
                    self.model_words |= {camel(d['name']), pascal(d['name'])}
                for m in d.get('fields') or d.get('tags') or []:
                    self.model_words |= {camel(m['name']), pascal(m['name'])}
        self.scans = {}
        self.broken = set()      # files with lexical errors: declaration checks are skipped there

    def viol(self, kind, detail, what):
        self.rec.violation('C17|%s|%s|%s' % (kind, self.backend, detail), '%s: %s' % (self.backend, what),
                           case=self.case, human=self.specs)

    def attr(self, route, name):
        """Route attribute value: given, else the schema default (None when absent)."""
        v = route['attrs'].get(name)
        if v is None and name in self.schema and self.schema[name].get('default') is not None:
            v = self.schema[name]['default']
        return None if v is None else v[1]

    def count(self, elem, found, expected, where, extras=True):
        """found: Counter of names seen; expected: iterable of names that must occur exactly once."""
        expected = list(expected)
        for x in expected:
            c = found.get(x, 0)
            if c == 0:
                self.viol('missing-decl', elem, '%s: %s %s is not declared' % (where, elem, x))
            elif c > 1:
                self.viol('duplicate-decl', elem, '%s: %s %s is declared %d times' % (where, elem, x, c))
        if extras:
            for x in sorted(set(found) - set(expected)):
                self.viol('extra-decl', elem, '%s: declares %s %s which the spec does not define' % (where, elem, x))


def lex_site(cx, sc, pos):
    """Coarse, identifier-free description of the line holding a lexical error."""
    line = sc.line_at(pos)
    ids = re.findall(r'[A-Za-z_]\w*', line)[:2]
    out = []
    for w in ids:
        out.append(w if w in SITE_WORDS and w not in cx.model_words else 'X')
    return ' '.join(out) or '-'


SITE_WORDS = {'public', 'init', 'let', 'var', 'case', 'return', 'static', 'func', 'class', 'enum', 'try', 'self',
              'if', 'else', 'switch', 'default', 'throw', 'override', 'open', 'discardableResult', 'available',
              'objc', 'DBStoneValidators', 'stringValidator', 'nonnullValidator', 'nullableValidator',
              'NSString', 'NSNumber', 'NSDictionary', 'NSArray', 'NSDate', 'jsonDict', 'valueDict', 'instancetype',
              'property', 'interface', 'implementation', 'import', 'typedef', 'name', 'namespace', 'deprecated',
              'argSerializer', 'responseSerializer', 'errorSerializer', 'attributes', 'super', 'guard', 'for'}


def lex_files(cx, files, static):
    """Scan every generated file; report lexical errors; fill cx.scans."""
    for path in sorted(files):
        lang = 'swift' if path.endswith('.swift') else 'objc'
        try:
            text = files[path].decode('utf-8')
        except UnicodeDecodeError:
            cx.viol('lex', 'not-utf8', '%s is not valid UTF-8' % path)
            cx.broken.add(path)
            continue
        if static(path):
            sc = scan_cached(text, lang)       # copied resource: scanned once per process
        else:
            sc = Scan(text, lang)
        cx.scans[path] = sc
        if sc.errors:
            cx.broken.add(path)
            seen = set()
            brackets = 0
            for kind, pos in sc.errors:
                if kind in ('unbalanced-bracket', 'unclosed-bracket'):
                    brackets += 1
                    if brackets > 1:
                        continue        # later imbalances follow from the first
                site = 'static-resource' if static(path) else lex_site(cx, sc, pos)
                if (kind, site) in seen:
                    continue
                seen.add((kind, site))
                cx.viol('lex', '%s|%s' % (kind, site), '%s: %s at offset %d: %s' % (
                    path, kind, pos, sc.line_at(pos).strip()[:160]))


def finditer(sc, rx, a=0, b=None, text=None):
    src = sc.nostr if text is None else text
    return re.compile(rx, re.M).finditer(src, a, len(src) if b is None else b)


# ---------------------------------------------------------------------------------------
# swift_types

STR = r'"((?:[^"\\\n]|\\.)*)"'
STATIC_SWIFT = ('StoneBase.swift', 'StoneSerializers.swift', 'StoneValidators.swift')


def swift_types_decls(cx, static):
    """{NsClass: set(member names)} declared in the <Ns>.swift files (raw-text scan, so it also works for
    files the lexer rejects)."""
    out = {}
    for path, sc in cx.scans.items():
        if static(path) or not path.endswith('.swift'):
            continue
        members = out.setdefault(path[:-6], set())
        for k in re.finditer(r'^[ \t]+public (?:class|enum) (\w+)', sc.text, re.M):
            members.add(k.group(1))
        for k in re.finditer(r'^[ \t]+static let (\w+) = Route\(', sc.text, re.M):
            members.add(k.group(1))
    return out


def check_swift_types(cx):
    idx = cx.idx
    found_ns = collections.Counter()
    for path, sc in cx.scans.items():
        if path in STATIC_SWIFT:
            continue
        for m in re.finditer(r'^public class (\w+)\s*\{', sc.text, re.M):
            found_ns[m.group(1)] += 1
    cx.count('namespace', found_ns, [pascal(n) for n in cx.ns_names], 'swift output')
    for n in cx.api['namespaces']:
        ns, nsc = n['name'], pascal(n['name'])
        path = nsc + '.swift'
        sc = cx.scans.get(path)
        if sc is None:
            cx.viol('missing-decl', 'namespace-file', 'no %s for namespace %s' % (path, ns))
            continue
        if path in cx.broken:
            cx.rec.note('decl_checks_skipped_in_lexically_broken_file')
            continue
        tops = [m for m in finditer(sc, r'^public class %s\s*\{' % nsc) if depth_at(sc, m.start()) == 0]
        if len(tops) != 1:
            continue
        a, b = sc.body_after(tops[0].start())
        decls = collections.defaultdict(list)
        for m in finditer(sc, r'^[ \t]*public (class|enum) (\w+)\s*:\s*(.*?)\s*\{[ \t]*$', a, b):
            if depth_at(sc, m.start(1)) == 1:
                decls[m.group(2)].append((m.group(1), m.group(3), sc.body_after(m.start(1))))
        want_struct, want_union, want_ser = [], [], []
        for d in n['defs']:
            if d['k'] == 'struct':
                want_struct.append(pascal(d['name']))
            elif d['k'] == 'union':
                want_union.append(pascal(d['name']))
            else:
                continue
            want_ser.append(pascal(d['name']) + 'Serializer')
        where = path
        cx.count('struct', collections.Counter({k: len(v) for k, v in decls.items() if k in want_struct}), want_struct, where)
        cx.count('union', collections.Counter({k: len(v) for k, v in decls.items() if k in want_union}), want_union, where)
        cx.count('serializer', collections.Counter({k: len(v) for k, v in decls.items() if k in want_ser}), want_ser, where)
        for k in sorted(set(decls) - set(want_struct) - set(want_union) - set(want_ser)):
            cx.viol('extra-decl', 'type', '%s declares %s which the spec does not define' % (where, k))
        for d in n['defs']:
            if d['k'] not in ('struct', 'union'):
                continue
            name = pascal(d['name'])
            dd, ss = decls.get(name, []), decls.get(name + 'Serializer', [])
            if len(dd) != 1 or len(ss) != 1 or dd[0][2] is None or ss[0][2] is None:
                continue
            kind, parents, body = dd[0]
            if kind != ('class' if d['k'] == 'struct' else 'enum'):
                cx.viol('wrong-decl', 'kind-' + d['k'], '%s.%s is declared as %s' % (nsc, name, kind))
                continue
            if d['k'] == 'struct':
                want_parent = 'CustomStringConvertible, JSONRepresentable' if not d['parent'] else \
                    '%s.%s' % (pascal(d['parent'][0]), pascal(d['parent'][1]))
                if parents != want_parent:
                    cx.viol('wrong-decl', 'struct-parent', '%s.%s inherits %r, expected %r' % (nsc, name, parents, want_parent))
                swift_struct(cx, sc, ns, d, body, ss[0][2])
            else:
                swift_union(cx, sc, ns, d, body, ss[0][2])
        swift_route_objects(cx, sc, n, a, b)


def alias_leaf(cx, where, text, got, kinds=('?', 'name')):
    """True when a leaf of a declared type is spelled like an alias of the model (root cause: the alias was not
    resolved); reported here only when the token-level alias check cannot see it."""
    hit = [l[1].strip('_') for l in leaves(got) if l[0] in kinds and l[1].strip('_') in cx.alias_all]
    if not hit:
        return False
    if any(h not in cx.alias_names for h in hit):
        ctx = 'dictionary-line' if re.search(r'Dictionary|DBMapSerializer', text) else 'other-line'
        cx.viol('alias-name-in-output', ctx, '%s uses alias name %s, which is never declared: %s' % (where, hit[0], text[:160]))
    return True


def swift_type_check(cx, where, elem, text, t):
    got = parse_swift_type(text)
    if got is None:
        cx.viol('wrong-decl', elem + '-type-unparsable', '%s has type %r' % (where, text))
        return
    got = names_to_prims(got, SWIFT_PRIM_REV)
    if alias_leaf(cx, where, text, got):
        return          # reported once, as an unresolved alias
    diff = shape_diff(mshape(cx.idx, t), got, swift_refeq)
    if diff:
        cx.viol('wrong-decl', '%s-type|%s' % (elem, diff), '%s is declared %s, the spec says %s' % (
            where, text, render.fmt_type(t, '')))


def swift_serial_check(cx, where, elem, text, t):
    got = parse_swift_serial(text)
    if alias_leaf(cx, where, text, got):
        return
    diff = shape_diff(mshape(cx.idx, t, fmt=True), got, swift_refeq)
    if diff:
        cx.viol('wrong-decl', '%s-serializer|%s' % (elem, diff), '%s uses %s, the spec says %s' % (
            where, text, render.fmt_type(t, '')))


def func_body(sc, name, a, b):
    for m in finditer(sc, r'^[ \t]*public func %s\(' % name, a, b):
        return sc.body_after(m.start())
    return None


def swift_struct(cx, sc, ns, d, body, sbody):
    idx = cx.idx
    where = '%s.%s' % (pascal(ns), pascal(d['name']))
    a, b = body
    lets = collections.Counter()
    types = {}
    for m in finditer(sc, r'^[ \t]*public let (\w+)\s*:\s*(.*?)[ \t]*$', a, b):
        if depth_at(sc, m.start(1)) == 2:
            lets[m.group(1)] += 1
            types[m.group(1)] = m.group(2)
    cx.count('field', lets, [camel(f['name']) for f in d['fields']], where)
    for f in d['fields']:
        if lets.get(camel(f['name'])) == 1:
            swift_type_check(cx, '%s.%s' % (where, camel(f['name'])), 'field', types[camel(f['name'])], f['type'])
    allf = [f for _, _, f in idx.struct_all_fields(ns, d)]
    ser = func_body(sc, 'serialize', *sbody)
    des = func_body(sc, 'deserialize', *sbody)
    if ser is None or des is None:
        cx.viol('missing-decl', 'serializer-method', '%sSerializer lacks serialize / deserialize' % where)
        return
    ent = collections.Counter()
    info = {}
    for m in finditer(sc, r'^[ \t]*' + STR + r': try (.+)\.serialize\(value\.(\w+)\),[ \t]*$', ser[0], ser[1], text=sc.code):
        ent[m.group(1)] += 1
        info[m.group(1)] = (m.group(2), m.group(3))
    cx.count('serializer-entry', ent, [f['name'] for f in allf], where + 'Serializer.serialize')
    for f in allf:
        if ent.get(f['name']) == 1:
            s, var = info[f['name']]
            if var != camel(f['name']):
                cx.viol('wrong-decl', 'serializer-entry-member', '%sSerializer writes "%s" from value.%s' % (where, f['name'], var))
            swift_serial_check(cx, '%sSerializer "%s"' % (where, f['name']), 'field', s, f['type'])
    ent = collections.Counter()
    info = {}
    for m in finditer(sc, r'^[ \t]*let (\w+) = try (.+)\.deserialize\(dict\[' + STR + r'\] \?\? (.+)\)[ \t]*$', des[0], des[1], text=sc.code):
        ent[m.group(3)] += 1
        info[m.group(3)] = (m.group(2), m.group(1))
    if d.get('subtypes'):
        # an enumerated-subtype root is rebuilt field by field only in its catch-all branch
        names = {f['name'] for f in allf}
        for x, c in sorted(ent.items()):
            if c > 1 or x not in names:
                cx.viol('duplicate-decl' if c > 1 else 'extra-decl', 'deserializer-entry',
                        '%sSerializer reads "%s" %d times' % (where, x, c))
    else:
        cx.count('deserializer-entry', ent, [f['name'] for f in allf], where + 'Serializer.deserialize')
    for f in allf:
        if ent.get(f['name']) == 1:
            s, var = info[f['name']]
            if var != camel(f['name']):
                cx.viol('wrong-decl', 'deserializer-entry-member', '%sSerializer reads "%s" into %s' % (where, f['name'], var))
            swift_serial_check(cx, '%sSerializer "%s"' % (where, f['name']), 'field', s, f['type'])
    if d.get('subtypes'):
        subs = collections.Counter()
        for m in finditer(sc, r'^[ \t]*case let (\w+) as ([\w.]+):[ \t]*$', ser[0], ser[1]):
            subs[(m.group(1), m.group(2))] += 1
        want = [(camel(tag), '%s.%s' % (pascal(ns), pascal(kid))) for tag, kid in d['subtypes']['items']]
        cx.count('subtype', subs, want, where + 'Serializer.serialize')
        tags = collections.Counter()
        for m in finditer(sc, r'^[ \t]*case ' + STR + r':[ \t]*$', des[0], des[1], text=sc.code):
            tags[m.group(1)] += 1
        cx.count('subtype-tag', tags, [tag for tag, _ in d['subtypes']['items']], where + 'Serializer.deserialize')


def swift_union(cx, sc, ns, d, body, sbody):
    idx = cx.idx
    where = '%s.%s' % (pascal(ns), pascal(d['name']))
    tags = [t for _, _, t in idx.union_all_tags(ns, d)]
    a, b = body
    cases = collections.Counter()
    payload = {}
    for m in finditer(sc, r'^[ \t]*case (\w+)(?:\((.*)\))?[ \t]*$', a, b):
        if depth_at(sc, m.start(1)) == 2:
            cases[m.group(1)] += 1
            payload[m.group(1)] = m.group(2)
    cx.count('tag', cases, [camel(t['name']) for t in tags], where)
    for t in tags:
        c = camel(t['name'])
        if cases.get(c) != 1:
            continue
        if t['type'] is None:
            if payload[c] is not None:
                cx.viol('wrong-decl', 'tag-type|void tag has a payload', '%s.%s(%s)' % (where, c, payload[c]))
        elif payload[c] is None:
            cx.viol('wrong-decl', 'tag-type|payload missing', '%s.%s has no payload, the spec says %s' % (
                where, c, render.fmt_type(t['type'], '')))
        else:
            swift_type_check(cx, '%s.%s' % (where, c), 'tag', payload[c], t['type'])
    ser = func_body(sc, 'serialize', *sbody)
    des = func_body(sc, 'deserialize', *sbody)
    if ser is None or des is None:
        cx.viol('missing-decl', 'serializer-method', '%sSerializer lacks serialize / deserialize' % where)
        return
    by_camel = {camel(t['name']): t for t in tags}
    by_raw = {t['name']: t for t in tags}
    # serialize: one `case .tag` per tag, writing the tag's own wire name with the tag's serializer
    seen = collections.Counter()
    cur = None
    for line_m in finditer(sc, r'^.*$', ser[0], ser[1], text=sc.code):
        line = line_m.group(0).strip()
        m = re.fullmatch(r'case \.(\w+)(\(let arg\))?:', line)
        if m:
            cur = m.group(1)
            seen[cur] += 1
            continue
        t = by_camel.get(cur)
        if t is None:
            continue
        m = re.fullmatch(r'var d = try Serialization\.getFields\((.+)\.serialize\(arg\)\)', line) or \
            re.fullmatch(r'var d = try \[' + STR + r': (.+)\.serialize\(arg\)\]', line)
        if m and t['type'] is not None:
            if m.lastindex == 2 and m.group(1) != t['name']:
                cx.viol('wrong-decl', 'tag-wire-name', '%sSerializer writes tag %s under key "%s"' % (where, t['name'], m.group(1)))
            swift_serial_check(cx, '%sSerializer case .%s' % (where, cur), 'tag', m.group(m.lastindex), t['type'])
        m = re.fullmatch(r'd\["\.tag"\] = \.str\(' + STR + r'\)', line)
        if m and m.group(1) != t['name']:
            cx.viol('wrong-decl', 'tag-wire-name', '%sSerializer writes .tag "%s" for case .%s' % (where, m.group(1), cur))
    cx.count('serializer-case', seen, list(by_camel), where + 'Serializer.serialize')
    seen = collections.Counter()
    cur = None
    for line_m in finditer(sc, r'^.*$', des[0], des[1], text=sc.code):
        line = line_m.group(0).strip()
        m = re.fullmatch(r'case ' + STR + r':', line)
        if m:
            cur = m.group(1)
            seen[cur] += 1
            continue
        if line == 'default:':
            cur = None
        t = by_raw.get(cur)
        if t is None:
            continue
        m = re.fullmatch(r'let v = try (.+)\.deserialize\((?:json|d\[' + STR + r'\] \?\? \.null)\)', line)
        if m and t['type'] is not None:
            if m.group(2) is not None and m.group(2) != t['name']:
                cx.viol('wrong-decl', 'tag-wire-name', '%sSerializer reads tag %s from key "%s"' % (where, t['name'], m.group(2)))
            swift_serial_check(cx, '%sSerializer case "%s"' % (where, cur), 'tag', m.group(1), t['type'])
        m = re.fullmatch(r'return (\w+)\.(\w+)(\(v\))?', line)
        if m and (m.group(1) != pascal(d['name']) or m.group(2) != camel(t['name'])):
            cx.viol('wrong-decl', 'deserializer-case-result', '%sSerializer returns %s.%s for tag "%s"' % (
                where, m.group(1), m.group(2), cur))
    cx.count('deserializer-case', seen, list(by_raw), where + 'Serializer.deserialize')


def swift_route_objects(cx, sc, n, a, b):
    ns, nsc = n['name'], pascal(n['name'])
    routes = [d for d in n['defs'] if d['k'] == 'route']
    found = collections.Counter()
    blocks = {}
    for m in finditer(sc, r'^[ \t]*static let (\w+) = Route\(', a, b):
        if depth_at(sc, m.start(1)) != 1:
            continue
        found[m.group(1)] += 1
        op = m.end() - 1
        if op in sc.match:
            blocks[m.group(1)] = sc.code[op + 1:sc.match[op]]
    cx.count('route', found, [swift_route(r) for r in routes], nsc + '.swift')
    for r in routes:
        name = swift_route(r)
        if found.get(name) != 1 or name not in blocks:
            continue
        blk = blocks[name]
        where = '%s.%s' % (nsc, name)

        def field(key, rx=r'(.+?)'):
            m = re.search(r'^[ \t]*%s: %s,?[ \t]*$' % (key, rx), blk, re.M)
            return m.group(1) if m else None
        wire = r['name'] if r['version'] == 1 else '%s_v%d' % (r['name'], r['version'])
        got = {'name': field('name', STR), 'version': field('version', r'(\d+)'), 'namespace': field('namespace', STR),
               'deprecated': field('deprecated', r'(\w+)')}
        want = {'name': wire, 'version': str(r['version']), 'namespace': ns,
                'deprecated': 'true' if r['deprecated'] else 'false'}
        for k in want:
            if got[k] != want[k]:
                cx.viol('wrong-decl', 'route-' + k, '%s has %s %r, the spec says %r' % (where, k, got[k], want[k]))
        for key, io in (('argSerializer', 'arg'), ('responseSerializer', 'result'), ('errorSerializer', 'error')):
            s = field(key)
            if s is None:
                cx.viol('missing-decl', 'route-' + key, '%s lacks %s' % (where, key))
            else:
                swift_serial_check(cx, '%s %s' % (where, key), 'route', s, r[io])
        m = re.search(r'attributes: RouteAttributes\((.*)\)\s*$', blk, re.S)
        gota = dict(re.findall(r'(\w+): (\[[^\]]*\]|\.\w+)', m.group(1))) if m else {}
        wanta = {}
        for key in cx.schema:
            v = cx.attr(r, key)
            if v:
                wanta[key] = '[%s]' % ', '.join('.' + x for x in v.split(', ')) if key == 'auth' else '.' + v
        if gota != wanta:
            cx.viol('wrong-decl', 'route-attributes', '%s has attributes %s, the spec says %s' % (where, gota, wanta))


# ---------------------------------------------------------------------------------------
# references (Swift flavours)

SWIFT_WORDS = {'Foundation', 'SwiftyDropbox', 'CustomStringConvertible', 'JSONRepresentable', 'String', 'NSObject',
               'NSNumber', 'Data', 'Date', 'Array', 'Dictionary', 'Bool', 'Float', 'Double', 'Int32', 'Int64',
               'UInt32', 'UInt64', 'Void', 'Self', 'DispatchQueue', 'Progress', 'URL', 'InputStream', 'Error',
               'DropboxTransportClientOwning', 'DropboxTransportClient', 'DropboxTransportClientInternal',
               'ApiRequest', 'ReconnectionHelpersShared', 'ReconnectionErrorKind', 'DBXRequest', 'DBXCallError',
               'DBXDropboxTransportClient'}


def swift_top_decls(sc):
    """Top-level type names a Swift file declares (they start in column 0 in every template, so the raw text is
    scanned: this also works for files the lexer rejects)."""
    return {m.group(1) for m in re.finditer(
        r'^(?:(?:public|open|final|private|internal|fileprivate)[ \t]+)*(?:class|enum|struct|protocol|typealias)[ \t]+(\w+)',
        sc.text, re.M)}


def alias_token_check(cx, path, sc):
    if not cx.alias_names:
        return
    for kind, val, pos in sc.tokens:
        if kind == 'id' and val.strip('_') in cx.alias_names and len(val) - len(val.strip('_')) <= 1:
            line = sc.line_at(pos)
            ctx = 'dictionary-line' if re.search(r'Dictionary|DBMapSerializer', line) else 'other-line'
            cx.viol('alias-name-in-output', ctx, '%s uses alias name %s, which it never declares: %s' % (
                path, val, line.strip()[:160]))


def swift_ref_check(cx, reg, static, config_names):
    # a namespace class that shares its name with a user type is ambiguous at this level: not judged
    ns_classes = {pascal(n) for n in cx.ns_names} - {pascal(d['name']) for _, d in cx.idx.types()}
    for path, sc in cx.scans.items():
        if static(path):
            continue
        alias_token_check(cx, path, sc)
        if path in cx.broken:
            continue
        local = reg['swift_ns'].get(path[:-6], set()) if cx.backend == 'swift_types' else set()
        allowed = SWIFT_WORDS | reg['swift_top'] | ns_classes | local | config_names
        toks = sc.tokens
        for k, (kind, val, pos) in enumerate(toks):
            if kind != 'id':
                continue
            dotted = k >= 1 and toks[k - 1][1] == '.' and toks[k - 1][0] == 'op'
            owner = toks[k - 2][1] if dotted and k >= 2 and toks[k - 2][0] == 'id' else None
            if dotted and owner in ns_classes and not (k >= 4 and toks[k - 3][1] == '.' and toks[k - 3][0] == 'op'
                                                       and toks[k - 4][0] == 'id'):
                if val not in reg['swift_ns'].get(owner, set()) and val.strip('_') not in cx.alias_all:
                    what = 'serializer' if val.endswith('Serializer') else ('route' if val[:1].islower() else 'type')
                    cx.viol('undeclared-reference', what, '%s refers to %s.%s, which the %s namespace class does not '
                            'declare: %s' % (path, owner, val, owner, sc.line_at(pos).strip()[:160]))
            elif not dotted and val[:1].isupper():
                if val not in allowed and val not in cx.alias_all:
                    what = 'dbx-name' if val.startswith('DBX') else 'plain-name'
                    cx.viol('undeclared-reference', what, '%s uses the name %s, which no generated file declares: %s' % (
                        path, val, sc.line_at(pos).strip()[:160]))
            elif dotted and owner == 'Serialization' and val.startswith('_'):
                if val not in reg['swift_serialization'] and val.strip('_') not in cx.alias_all:
                    cx.viol('undeclared-reference', 'serialization-member', '%s uses Serialization.%s: %s' % (
                        path, val, sc.line_at(pos).strip()[:160]))


# ---------------------------------------------------------------------------------------
# swift_types --objc  (DBX<Ns><Type> wrappers)

def skeleton_check(cx, where, elem, got, t, prefix, ref):
    if got is None:
        cx.viol('wrong-decl', elem + '-type-unparsable', '%s has an unreadable type' % where)
        return
    if alias_leaf(cx, where, where, got):
        return
    diff = shape_diff(skeleton(mshape(cx.idx, t), ref), names_to_skeleton(got, prefix),
                      lambda e, g: e[1] == g[1])
    if diff:
        cx.viol('wrong-decl', '%s-type|%s' % (elem, diff), '%s does not match the spec type %s' % (
            where, render.fmt_type(t, '')))


def top_classes(sc):
    out = collections.defaultdict(list)
    for m in finditer(sc, r'^[ \t]*(?:public |final |open )*class (\w+)\s*:\s*(.*?)\s*\{[ \t]*$'):
        if depth_at(sc, m.start(1)) == 0:
            out[m.group(1)].append((m.group(2), sc.body_after(m.start(1))))
    return out


def dbx_vars(sc, body):
    cnt, types = collections.Counter(), {}
    for m in finditer(sc, r'^[ \t]*public var (\w+)\s*:\s*([^{\n]*?)\s*(?:\{.*)?$', body[0], body[1]):
        if depth_at(sc, m.start(1)) == 1:
            cnt[m.group(1)] += 1
            types[m.group(1)] = m.group(2)
    return cnt, types


def check_swift_types_objc(cx, reg):
    idx = cx.idx
    for path, sc in cx.scans.items():
        reg['swift_top'] |= swift_top_decls(sc)
    for n in cx.api['namespaces']:
        ns, nsc = n['name'], pascal(n['name'])
        path = 'DBX%s.swift' % nsc
        sc = cx.scans.get(path)
        if sc is None:
            cx.viol('missing-decl', 'namespace-file', 'no %s for namespace %s' % (path, ns))
            continue
        if path in cx.broken:
            cx.rec.note('decl_checks_skipped_in_lexically_broken_file')
            continue
        tops = top_classes(sc)
        want = {}
        for d in n['defs']:
            if d['k'] == 'struct':
                want[dbx(ns, d['name'])] = ('struct', d, None)
            elif d['k'] == 'union':
                want[dbx(ns, d['name'])] = ('union', d, None)
                for _, _, t in idx.union_all_tags(ns, d):
                    want[dbx(ns, d['name']) + pascal(t['name'])] = ('tag', d, t)
        for kind in ('struct', 'union', 'tag'):
            names = [k for k, v in want.items() if v[0] == kind]
            cx.count(kind, collections.Counter({k: len(v) for k, v in tops.items() if k in names}), names, path)
        for k in sorted(set(tops) - set(want)):
            cx.viol('extra-decl', 'type', '%s declares %s which the spec does not define' % (path, k))
        for name, (kind, d, t) in want.items():
            if len(tops.get(name, [])) != 1 or tops[name][0][1] is None:
                continue
            parents, body = tops[name][0]
            base = dbx(ns, d['name'])
            if kind == 'struct':
                wantp = 'NSObject' if not d['parent'] else dbx(*d['parent'])
                cnt, types = dbx_vars(sc, body)
                cnt.pop('description', None)
                cx.count('field', cnt, [camel(f['name']) for f in d['fields']], name)
                for f in d['fields']:
                    if cnt.get(camel(f['name'])) == 1:
                        skeleton_check(cx, '%s.%s: %s' % (name, camel(f['name']), types[camel(f['name'])]), 'field',
                                       parse_swift_type(types[camel(f['name'])]), f['type'], 'DBX', dbx)
            elif kind == 'union':
                wantp = 'NSObject'
                tags = [x for _, _, x in idx.union_all_tags(ns, d)]
                fac = None
                for m in finditer(sc, r'^[ \t]*public static func factory\(', body[0], body[1]):
                    fac = sc.body_after(m.start())
                if fac is None:
                    cx.viol('missing-decl', 'union-factory', '%s has no factory(swift:)' % name)
                else:
                    cases = collections.Counter(m.group(1) for m in finditer(
                        sc, r'^[ \t]*case \.(\w+)(?:\(let swiftArg\))?:[ \t]*$', fac[0], fac[1]))
                    cx.count('factory-case', cases, [camel(x['name']) for x in tags], name + '.factory')
                cnt, types = dbx_vars(sc, body)
                cnt.pop('description', None)
                cx.count('tag-accessor', cnt, ['as' + pascal(x['name']) for x in tags], name)
                for x in tags:
                    a = 'as' + pascal(x['name'])
                    if cnt.get(a) == 1 and types[a] != base + pascal(x['name']) + '?':
                        cx.viol('wrong-decl', 'tag-accessor-type', '%s.%s has type %s' % (name, a, types[a]))
            else:
                wantp = base
                cnt, types = dbx_vars(sc, body)
                wantv = [] if t['type'] is None else [camel(t['name'])]
                cx.count('tag-payload', cnt, wantv, name)
                if wantv and cnt.get(wantv[0]) == 1:
                    skeleton_check(cx, '%s.%s: %s' % (name, wantv[0], types[wantv[0]]), 'tag',
                                   parse_swift_type(types[wantv[0]]), t['type'], 'DBX', dbx)
            if parents != wantp:
                cx.viol('wrong-decl', kind + '-parent', '%s inherits %r, expected %r' % (name, parents, wantp))
    if 'swift_types' not in reg['failed']:
        swift_ref_check(cx, reg, is_static(cx.backend), set())


# ---------------------------------------------------------------------------------------
# swift_client

def split_top(text):
    """Split a parameter list at top-level commas (brackets and generics nest; `->` is not a closer)."""
    out, depth, cur = [], 0, ''
    prev = ''
    for ch in text:
        if ch in '([<':
            depth += 1
        elif ch in ')]' or (ch == '>' and prev != '-'):
            depth -= 1
        if ch == ',' and depth == 0:
            out.append(cur)
            cur = ''
        else:
            cur += ch
        prev = ch
    if cur.strip():
        out.append(cur)
    return [x.strip() for x in out]


def param_labels(text):
    out = []
    for part in split_top(text):
        m = re.match(r'(?:_\s+)?(\w+)\s*:', part)
        out.append(m.group(1) if m else '?')
    return out


def route_entries(cf, style):
    """Client-argument entries of a route style: [(request key, [[name, value, type, doc], ...])] or [None]."""
    return cf['client_args'].get(style) or [None]


def swift_serial_type(cx, t):
    b = cx.idx.base(t)
    return 'VoidSerializer' if b[0] == 'prim' else '%s.%sSerializer' % (pascal(b[1]), pascal(b[2]))


def arg_labels(cx, r):
    b = cx.idx.base(r['arg'])
    if b[0] != 'ref':
        return [], None
    d = cx.idx.get(b[1], b[2])
    if d['k'] == 'union':
        return [camel(d['name'])], d
    return [camel(f['name']) for _, _, f in cx.idx.struct_all_fields(b[1], d)], d


def check_swift_client(cx, reg):
    cf = conf(cx.backend)
    for path, sc in cx.scans.items():
        reg['swift_top'] |= swift_top_decls(sc)
    background = []
    ns_with_routes = []
    for n in cx.api['namespaces']:
        ns, nsc = n['name'], pascal(n['name'])
        routes = [d for d in n['defs'] if d['k'] == 'route']
        path = '%sRoutes.swift' % nsc
        sc = cx.scans.get(path)
        if not routes:
            if sc is not None:
                cx.viol('extra-decl', 'namespace-routes', '%s exists although namespace %s has no route' % (path, ns))
            continue
        ns_with_routes.append(ns)
        for r in routes:
            if cx.attr(r, 'style') in cf['client_args']:
                background.append((ns, r))
        if sc is None:
            cx.viol('missing-decl', 'namespace-routes', 'no %s for namespace %s' % (path, ns))
            continue
        if path in cx.broken:
            cx.rec.note('decl_checks_skipped_in_lexically_broken_file')
            continue
        tops = top_classes(sc)
        cx.count('namespace-routes', collections.Counter({k: len(v) for k, v in tops.items()}), [nsc + 'Routes'], path)
        if len(tops.get(nsc + 'Routes', [])) != 1 or tops[nsc + 'Routes'][0][1] is None:
            continue
        a, b = tops[nsc + 'Routes'][0][1]
        funcs = collections.defaultdict(list)
        for m in finditer(sc, r'^[ \t]*(?:@discardableResult )?public func (\w+)\((.*)\) -> (.*?)\s*\{[ \t]*$', a, b):
            if depth_at(sc, m.start(1)) == 1:
                funcs[m.group(1)].append((m.group(2), m.group(3), sc.body_after(m.end() - 1)))
        want = {}
        for r in routes:
            want[swift_route(r)] = r
        found = collections.Counter({k: len(v) for k, v in funcs.items()})
        for name, r in want.items():
            ents = route_entries(cf, cx.attr(r, 'style'))
            c = found.get(name, 0)
            if c == 0:
                cx.viol('missing-decl', 'route', '%s: route %s has no method' % (path, name))
            elif c != len(ents):
                cx.viol('duplicate-decl' if c > len(ents) else 'missing-decl', 'route-variant',
                        '%s: route %s has %d methods, %d client-argument variants were configured' % (path, name, c, len(ents)))
            else:
                labels, _ = arg_labels(cx, r)
                for (params, ret, body), ent in zip(funcs[name], ents):
                    extra = [x[0] for x in ent[1]] if ent else []
                    got = param_labels(params)
                    if got != labels + extra:
                        cx.viol('wrong-decl', 'route-parameters', '%s.%s takes %s, expected %s' % (path, name, got, labels + extra))
                    req = cf['style_to_request'].get(ent[0] if ent else cx.attr(r, 'style'))
                    wantret = '%s<%s, %s>' % (req, swift_serial_type(cx, r['result']), swift_serial_type(cx, r['error']))
                    if ret != wantret:
                        cx.viol('wrong-decl', 'route-request-type', '%s.%s returns %s, expected %s' % (path, name, ret, wantret))
                    if body:
                        m = re.search(r'let route = (\w+)\.(\w+)', sc.nostr[body[0]:body[1]])
                        if not m or (m.group(1), m.group(2)) != (nsc, name):
                            cx.viol('wrong-decl', 'route-object', '%s.%s uses route object %s' % (
                                path, name, m.group(0) if m else None))
        for k in sorted(set(found) - set(want)):
            cx.viol('extra-decl', 'route', '%s declares method %s which is no route of the spec' % (path, k))
    # client class
    path = '%s.swift' % cf['module']
    sc = cx.scans.get(path)
    if sc is None:
        cx.viol('missing-decl', 'client-file', 'no %s' % path)
    elif path not in cx.broken:
        tops = top_classes(sc)
        cx.count('client-class', collections.Counter({k: len(v) for k, v in tops.items()}), [cf['cls']], path)
        if len(tops.get(cf['cls'], [])) == 1 and tops[cf['cls']][0][1]:
            body = tops[cf['cls']][0][1]
            cnt, types = dbx_vars(sc, body)
            cnt.pop('client', None)
            cx.count('namespace-member', cnt, [camel(ns) for ns in ns_with_routes], path)
            for ns in ns_with_routes:
                if cnt.get(camel(ns)) == 1 and types[camel(ns)] != pascal(ns) + 'Routes!':
                    cx.viol('wrong-decl', 'namespace-member-type', '%s.%s has type %s' % (cf['cls'], camel(ns), types[camel(ns)]))
            init = collections.Counter((m.group(1), m.group(2)) for m in finditer(
                sc, r'^[ \t]*self\.(\w+) = (\w+)\(client: client\)[ \t]*$', body[0], body[1]))
            cx.count('namespace-member-init', init, [(camel(ns), pascal(ns) + 'Routes') for ns in ns_with_routes], path)
    # request box and reconnection helpers
    box = '%sRequestBox' % cf['cls']
    wire = lambda ns, r: '%s/%s' % (ns, r['name'] if r['version'] == 1 else '%s_v%d' % (r['name'], r['version']))
    case_name = lambda ns, r: '%s_%s' % (ns, swift_route(r))
    for path, rx_case, elem in ((box + '.swift', r'^[ \t]*case (\w+)\((.*)\)[ \t]*$', 'request-box-case'),
                                ('ReconnectionHelpers.swift', r'^[ \t]*case ' + STR + r':[ \t]*$', 'reconnection-case')):
        sc = cx.scans.get(path)
        if sc is None:
            if background:
                cx.viol('missing-decl', elem + '-file', 'no %s although %d upload / download routes exist' % (path, len(background)))
            continue
        if path in cx.broken:
            continue
        got = collections.Counter(m.group(1) for m in finditer(sc, rx_case, text=sc.code))
        if elem == 'request-box-case':
            cx.count(elem, got, [case_name(ns, r) for ns, r in background], path)
            desc = collections.Counter(m.group(1) for m in finditer(sc, r'^[ \t]*case \.(\w+):[ \t]*$'))
            cx.count('request-box-description', desc, [case_name(ns, r) for ns, r in background], path)
        else:
            cx.count(elem, got, [wire(ns, r) for ns, r in background], path)
            refs = collections.Counter((m.group(1), m.group(2)) for m in finditer(sc, r'^[ \t]*route: (\w+)\.(\w+),[ \t]*$'))
            cx.count('reconnection-route', refs, [(pascal(ns), swift_route(r)) for ns, r in background], path)
    if 'swift_types' not in reg['failed']:
        swift_ref_check(cx, reg, is_static(cx.backend), set(cf['style_to_request'].values()) | {cf['transport']})


# ---------------------------------------------------------------------------------------
# swift_client --objc

def has_optional_arg_field(cx, r):
    b = cx.idx.base(r['arg'])
    if b[0] != 'ref':
        return False
    d = cx.idx.get(b[1], b[2])
    return d['k'] == 'struct' and any(cx.idx.is_optional(f) for _, _, f in cx.idx.struct_all_fields(b[1], d))


def dbx_request_class(cf, cx, ns, r, ent):
    req = cf['style_to_request'].get(ent[0] if ent else cx.attr(r, 'style'))
    return 'DBX%s%s%s%s' % (pascal(ns), pascal(r['name']), req, '' if r['version'] == 1 else 'V%d' % r['version'])


def check_swift_client_objc(cx, reg):
    cf = conf(cx.backend)
    for path, sc in cx.scans.items():
        reg['swift_top'] |= swift_top_decls(sc)
    background, ns_with_routes = [], []
    for n in cx.api['namespaces']:
        ns, nsc = n['name'], pascal(n['name'])
        routes = [d for d in n['defs'] if d['k'] == 'route']
        path = 'DBX%sRoutes.swift' % nsc
        sc = cx.scans.get(path)
        if not routes:
            if sc is not None:
                cx.viol('extra-decl', 'namespace-routes', '%s exists although namespace %s has no route' % (path, ns))
            continue
        ns_with_routes.append(ns)
        for r in routes:
            if cx.attr(r, 'style') in cf['client_args']:
                background.append((ns, r))
        if sc is None:
            cx.viol('missing-decl', 'namespace-routes', 'no %s for namespace %s' % (path, ns))
            continue
        if path in cx.broken:
            cx.rec.note('decl_checks_skipped_in_lexically_broken_file')
            continue
        tops = top_classes(sc)
        cls = 'DBX%sRoutes' % nsc
        want_cls = {cls: None}
        for r in routes:
            for ent in route_entries(cf, cx.attr(r, 'style')):
                want_cls[dbx_request_class(cf, cx, ns, r, ent)] = r
        cx.count('namespace-routes', collections.Counter({k: len(v) for k, v in tops.items() if k == cls}), [cls], path)
        reqs = [k for k in want_cls if k != cls]
        cx.count('route-request-class', collections.Counter({k: len(v) for k, v in tops.items() if k != cls}), reqs, path)
        if len(tops.get(cls, [])) != 1 or tops[cls][0][1] is None:
            continue
        a, b = tops[cls][0][1]
        lines = [m.group(1) for m in finditer(sc, r'^[ \t]*(?:@discardableResult )?public func (.*)$', a, b)
                 if depth_at(sc, m.start(1)) == 1]
        used = set()
        for r in routes:
            if r['deprecated']:
                continue          # deprecated routes are unavailable in Swift and get no Objective-C method
            for ent in route_entries(cf, cx.attr(r, 'style')):
                suffix = (ent[1][-1][2] if ent and ent[1] else '')
                head = swift_route(r) + suffix + '('
                hits = [i for i, ln in enumerate(lines) if ln.startswith(head)]
                used |= set(hits)
                want_n = 2 if has_optional_arg_field(cx, r) else 1
                if not hits:
                    cx.viol('missing-decl', 'route', '%s: route %s has no method %s...)' % (path, swift_route(r), head))
                elif len(hits) != want_n:
                    cx.viol('duplicate-decl' if len(hits) > want_n else 'missing-decl', 'route-variant',
                            '%s: %d methods %s...), expected %d' % (path, len(hits), head, want_n))
                elif len({lines[i] for i in hits}) != len(hits):
                    cx.viol('duplicate-decl', 'route', '%s: method %s...) is declared twice with one signature' % (path, head))
                for i in hits:
                    m = re.search(r'-> (\w+)\s*\{\s*$', lines[i])
                    wantc = dbx_request_class(cf, cx, ns, r, ent)
                    if not m or m.group(1) != wantc:
                        cx.viol('wrong-decl', 'route-request-type', '%s: %s returns %s, expected %s' % (
                            path, head, m.group(1) if m else None, wantc))
        for i, ln in enumerate(lines):
            if i not in used:
                cx.viol('extra-decl', 'route', '%s declares method %s which is no (non-deprecated) route' % (path, ln[:80]))
    path = 'DBX%s.swift' % cf['module']
    sc = cx.scans.get(path)
    cls = 'DBX' + cf['cls']
    if sc is None:
        cx.viol('missing-decl', 'client-file', 'no %s' % path)
    elif path not in cx.broken:
        tops = top_classes(sc)
        cx.count('client-class', collections.Counter({k: len(v) for k, v in tops.items()}), [cls], path)
        if len(tops.get(cls, [])) == 1 and tops[cls][0][1]:
            body = tops[cls][0][1]
            cnt, types = dbx_vars(sc, body)
            cx.count('namespace-member', cnt, [camel(ns) for ns in ns_with_routes], path)
            for ns in ns_with_routes:
                if cnt.get(camel(ns)) == 1 and types[camel(ns)] != 'DBX%sRoutes!' % pascal(ns):
                    cx.viol('wrong-decl', 'namespace-member-type', '%s.%s has type %s' % (cls, camel(ns), types[camel(ns)]))
            init = collections.Counter((m.group(1), m.group(2), m.group(3)) for m in finditer(
                sc, r'^[ \t]*self\.(\w+) = (\w+)\(swift: swift\.(\w+)\)[ \t]*$', body[0], body[1]))
            cx.count('namespace-member-init', init,
                     [(camel(ns), 'DBX%sRoutes' % pascal(ns), camel(ns)) for ns in ns_with_routes], path)
    path = 'DBX%sRequestBox.swift' % cf['cls']
    sc = cx.scans.get(path)
    if sc is None:
        if background:
            cx.viol('missing-decl', 'request-box-file', 'no %s although upload / download routes exist' % path)
    elif path not in cx.broken:
        got = collections.Counter(m.group(1) for m in finditer(sc, r'^[ \t]*if case \.(\w+)\(let swift\) = self \{[ \t]*$'))
        cx.count('request-box-case', got, ['%s_%s' % (ns, swift_route(r)) for ns, r in background], path)
    if not ({'swift_types', 'swift_types_objc', 'swift_client'} & reg['failed']):
        swift_ref_check(cx, reg, is_static(cx.backend),
                        set(cf['style_to_request'].values()) | {cf['transport'], 'DBX' + cf['transport']})


# ---------------------------------------------------------------------------------------
# obj_c_types

OBJC_WORDS = {'DBRpcTask', 'DBUploadTask', 'DBDownloadUrlTask', 'DBDownloadDataTask', 'DBTransportClient'}


def objc_decls(sc):
    """DB-prefixed names a file declares: classes, protocols, tag enums and their constants, route accessors."""
    out = set()
    for m in finditer(sc, r'^@(?:interface|protocol|implementation)\s+(\w+)'):
        out.add(m.group(1))
    for m in finditer(sc, r'^typedef NS_(?:CLOSED_)?ENUM\(\w+, (\w+)\)\s*\{'):
        out.add(m.group(1))
        body = sc.body_after(m.start())
        if body:
            out |= {k.group(1) for k in finditer(sc, r'^[ \t]*(\w+),[ \t]*$', body[0], body[1])}
    for m in finditer(sc, r'^\+ \(DBRoute \*\)(\w+)'):
        out.add(m.group(1))
    return out


def objc_blocks(sc, keyword):
    """{name: [(header rest, start, end)]} of @interface / @implementation ... @end blocks."""
    out = collections.defaultdict(list)
    for m in finditer(sc, r'^@%s[ \t]+(\w+)[ \t]*(.*)$' % keyword):
        e = sc.nostr.find('\n@end', m.end())
        out[m.group(1)].append((m.group(2).strip(), m.end(), e if e >= 0 else len(sc.nostr)))
    return out


def objc_ref_check(cx, reg, static):
    for path, sc in cx.scans.items():
        if static(path):
            continue
        alias_token_check(cx, path, sc)
        if path in cx.broken:
            continue
        for kind, val, pos in sc.tokens:
            if kind == 'id' and re.match(r'DB[A-Z]', val) and val not in reg['objc'] and val not in OBJC_WORDS \
                    and val not in reg['objc_extra']:
                cx.viol('undeclared-reference', 'db-name', '%s uses %s, which no generated file declares: %s' % (
                    path, val, sc.line_at(pos).strip()[:160]))


def check_obj_c_types(cx, reg):
    idx = cx.idx
    for path, sc in cx.scans.items():
        reg['objc'] |= objc_decls(sc)
    for n in cx.api['namespaces']:
        ns, nsc, caps = n['name'], pascal(n['name']), ns_caps(n['name'])
        mpath = 'ApiObjects/%s/DB%sObjects.m' % (nsc, nsc)
        msc = cx.scans.get(mpath)
        types = [d for d in n['defs'] if d['k'] in ('struct', 'union')]
        impls = {}
        if msc is None:
            cx.viol('missing-decl', 'namespace-file', 'no %s for namespace %s' % (mpath, ns))
        elif mpath in cx.broken:
            cx.rec.note('decl_checks_skipped_in_lexically_broken_file')
            msc = None
        else:
            impls = objc_blocks(msc, 'implementation')
            want = [db(ns, d['name']) for d in types]
            cx.count('type-implementation', collections.Counter({k: len(v) for k, v in impls.items() if not k.endswith('Serializer')}), want, mpath)
            cx.count('serializer-implementation', collections.Counter({k: len(v) for k, v in impls.items() if k.endswith('Serializer')}),
                     [w + 'Serializer' for w in want], mpath)
        for d in types:
            name = db(ns, d['name'])
            hpath = 'ApiObjects/%s/Headers/%s.h' % (nsc, name)
            sc = cx.scans.get(hpath)
            if sc is None:
                cx.viol('missing-decl', d['k'] + '-header', 'no %s' % hpath)
                continue
            if hpath in cx.broken:
                cx.rec.note('decl_checks_skipped_in_lexically_broken_file')
                continue
            ifs = objc_blocks(sc, 'interface')
            cx.count(d['k'], collections.Counter({k: len(v) for k, v in ifs.items() if not k.endswith('Serializer')}), [name], hpath)
            cx.count('serializer', collections.Counter({k: len(v) for k, v in ifs.items() if k.endswith('Serializer')}), [name + 'Serializer'], hpath)
            if len(ifs.get(name, [])) != 1:
                continue
            rest, a, b = ifs[name][0]
            wantp = db(*d['parent']) if d['k'] == 'struct' and d['parent'] else 'NSObject'
            m = re.match(r':\s*(\w+)', rest)
            if not m or m.group(1) != wantp:
                cx.viol('wrong-decl', d['k'] + '-parent', '%s is declared "%s", expected parent %s' % (name, rest, wantp))
            props, ptypes = collections.Counter(), {}
            for m in finditer(sc, r'^@property \(([^)]*)\) (.*?)(\w+);[ \t]*$', a, b):
                props[m.group(3)] += 1
                ptypes[m.group(3)] = m.group(2)
            if d['k'] == 'struct':
                cx.count('field', props, [camel(f['name']) for f in d['fields']], name)
                for f in d['fields']:
                    c = camel(f['name'])
                    if props.get(c) == 1:
                        skeleton_check(cx, '%s.%s: %s' % (name, c, ptypes[c]), 'field', parse_objc_type(ptypes[c]),
                                       f['type'], 'DB', db)
                if msc is not None and len(impls.get(name + 'Serializer', [])) == 1:
                    _, sa, sb = impls[name + 'Serializer'][0]
                    allf = [f['name'] for _, _, f in idx.struct_all_fields(ns, d)]
                    wr = collections.Counter(m.group(1) for m in finditer(
                        msc, r'^[ \t]*jsonDict\[@' + STR + r'\] = ', sa, sb, text=msc.code) if m.group(1) != '.tag')
                    cx.count('serializer-entry', wr, allf, name + 'Serializer serialize')
                    rd = collections.Counter(m.group(1) for m in finditer(
                        msc, r'^[^\n]*?valueDict\[@' + STR + r'\]', sa, sb, text=msc.code) if m.group(1) != '.tag')
                    if d.get('subtypes'):
                        for x, c in sorted(rd.items()):
                            if c > 1 or x not in allf:
                                cx.viol('duplicate-decl' if c > 1 else 'extra-decl', 'deserializer-entry',
                                        '%sSerializer reads "%s" %d times' % (name, x, c))
                        subs = collections.Counter(m.group(1) for m in finditer(
                            msc, r'isKindOfClass:\[(\w+) class\]', sa, sb))
                        cx.count('subtype', subs, [db(ns, kid) for _, kid in d['subtypes']['items']], name + 'Serializer serialize')
                        tg = collections.Counter(m.group(1) for m in finditer(
                            msc, r'valueDict\[@"\.tag"\] isEqualToString:@' + STR, sa, sb, text=msc.code))
                        cx.count('subtype-tag', tg, [tag for tag, _ in d['subtypes']['items']], name + 'Serializer deserialize')
                    else:
                        cx.count('deserializer-entry', rd, allf, name + 'Serializer deserialize')
            else:
                tags = [t for _, _, t in idx.union_all_tags(ns, d)]
                consts = collections.Counter()
                enums = collections.Counter()
                for m in finditer(sc, r'^typedef NS_(?:CLOSED_)?ENUM\(\w+, (\w+)\)\s*\{', a, b):
                    enums[m.group(1)] += 1
                    body = sc.body_after(m.start())
                    if body:
                        consts.update(k.group(1) for k in finditer(sc, r'^[ \t]*(\w+),[ \t]*$', body[0], body[1]))
                cx.count('tag-enum', enums, [name + 'Tag'], hpath)
                cx.count('tag', consts, [name + pascal(t['name']) for t in tags], name + 'Tag')
                cx.count('tag-property', props, ['tag'] + [camel(t['name']) for t in tags if t['type'] is not None], name)
                for t in tags:
                    c = camel(t['name'])
                    if t['type'] is not None and props.get(c) == 1:
                        skeleton_check(cx, '%s.%s: %s' % (name, c, ptypes[c]), 'tag', parse_objc_type(ptypes[c]),
                                       t['type'], 'DB', db)
                inits = collections.Counter(m.group(1) for m in finditer(sc, r'^- \(instancetype\)(initWith\w+)', a, b))
                cx.count('tag-constructor', inits, ['initWith' + pascal(t['name']) for t in tags], name)
                iss = collections.Counter(m.group(1) for m in finditer(sc, r'^- \(BOOL\)(is\w+);', a, b))
                cx.count('tag-test', iss, ['is' + pascal(t['name']) for t in tags], name)
                if msc is not None and len(impls.get(name + 'Serializer', [])) == 1:
                    _, sa, sb = impls[name + 'Serializer'][0]
                    wr = collections.Counter(m.group(1) for m in finditer(
                        msc, r'^[ \t]*jsonDict\[@"\.tag"\] = @' + STR + ';', sa, sb, text=msc.code))
                    for t in tags:
                        c = wr.get(t['name'], 0)
                        if c == 0:
                            cx.viol('missing-decl', 'serializer-case', '%sSerializer never writes tag "%s"' % (name, t['name']))
                        elif c > (2 if t.get('catch_all') else 1):
                            cx.viol('duplicate-decl', 'serializer-case', '%sSerializer writes tag "%s" %d times' % (name, t['name'], c))
                    for x in sorted(set(wr) - {t['name'] for t in tags}):
                        cx.viol('extra-decl', 'serializer-case', '%sSerializer writes unknown tag "%s"' % (name, x))
                    rd = collections.Counter(m.group(1) for m in finditer(
                        msc, r'\[tag isEqualToString:@' + STR + r'\]', sa, sb, text=msc.code))
                    cx.count('deserializer-case', rd, [t['name'] for t in tags], name + 'Serializer deserialize')
        # route objects
        routes = [d for d in n['defs'] if d['k'] == 'route']
        rcls = 'DB%sRouteObjects' % caps
        hp, mp = 'Routes/RouteObjects/%s.h' % rcls, 'Routes/RouteObjects/%s.m' % rcls
        if not routes:
            if hp in cx.scans or mp in cx.scans:
                cx.viol('extra-decl', 'route-objects', '%s exists although namespace %s has no route' % (hp, ns))
            continue
        want = [objc_route_var(ns, r) for r in routes]
        for path, kw, rx in ((hp, 'interface', r'^\+ \(DBRoute \*\)(\w+);'), (mp, 'implementation', r'^\+ \(DBRoute \*\)(\w+) \{')):
            sc = cx.scans.get(path)
            if sc is None:
                cx.viol('missing-decl', 'route-objects', 'no %s' % path)
                continue
            if path in cx.broken:
                continue
            cx.count('route-objects', collections.Counter({k: len(v) for k, v in objc_blocks(sc, kw).items()}), [rcls], path)
            cx.count('route', collections.Counter(m.group(1) for m in finditer(sc, rx)), want, path)
            if kw == 'implementation':
                cx.count('route-variable', collections.Counter(m.group(1) for m in finditer(sc, r'^static DBRoute \*(\w+);')), want, path)
                for r in routes:
                    var = objc_route_var(ns, r)
                    m = re.search(r'^[ \t]*%s = \[\[DBRoute alloc\] init:\n(.*?)^[ \t]*\];' % var, sc.code, re.M | re.S)
                    if not m:
                        cx.viol('missing-decl', 'route-initializer', '%s never initialises %s' % (path, var))
                        continue
                    blk = m.group(1)

                    def val(rx2):
                        k = re.search(rx2, blk, re.M)
                        return k.group(1) if k else None

                    def cls_of(t):
                        bb = idx.base(t)
                        return 'nil' if bb[0] == 'prim' else '[%s class]' % db(bb[1], bb[2])
                    wire = r['name'] if r['version'] == 1 else '%s_v%d' % (r['name'], r['version'])
                    got = {'name': val(r'\A[ \t]*@' + STR), 'namespace': val(r'^[ \t]*namespace_:@' + STR),
                           'deprecated': val(r'^[ \t]*deprecated:@(\w+)'), 'result': val(r'^[ \t]*resultType:(.*)$'),
                           'error': val(r'^[ \t]*errorType:(.*)$')}
                    wantv = {'name': wire, 'namespace': ns, 'deprecated': 'YES' if r['deprecated'] else 'NO',
                             'result': cls_of(r['result']), 'error': cls_of(r['error'])}
                    for k in wantv:
                        if got[k] != wantv[k]:
                            cx.viol('wrong-decl', 'route-' + k, '%s has %s %r, the spec says %r' % (var, k, got[k], wantv[k]))
    objc_ref_check(cx, reg, is_static(cx.backend))


# ---------------------------------------------------------------------------------------
# obj_c_client

def objc_methods(sc, a, b, header):
    """[(name, labels, return type)] of the instance methods between a and b."""
    out = []
    rx = r'^- \(([^)]*)\)(\w+)(.*);[ \t]*$' if header else r'^- \(([^)]*)\)(\w+)(.*)\{[ \t]*$'
    for m in finditer(sc, rx, a, b):
        labels = re.findall(r'(?:^|\s)(\w+):\(', m.group(3))
        if m.group(3).startswith(':'):
            labels.insert(0, m.group(2))         # the method name labels the first argument
        out.append((m.group(2), tuple(labels), m.group(1).strip()))
    return out


def check_obj_c_client(cx, reg):
    cf = conf(cx.backend)
    idx = cx.idx
    auth = cf['auth']
    own = set()
    for path, sc in cx.scans.items():
        own |= objc_decls(sc)
    reg['objc_extra'] = own | set(cf['style_to_request'].values())
    generated_ns = []
    for n in cx.api['namespaces']:
        ns, caps = n['name'], ns_caps(n['name'])
        routes = []
        for r in n['defs']:
            if r['k'] == 'route':
                auths = [x.strip() for x in (cx.attr(r, 'auth') or '').split(',')]
                if auth in auths or (auth == 'user' and 'noauth' in auths):
                    routes.append(r)
        cls = 'DB%s%sAuthRoutes' % (caps, pascal(auth))
        hp, mp = 'Routes/%s.h' % cls, 'Routes/%s.m' % cls
        if not routes:
            if hp in cx.scans or mp in cx.scans:
                cx.viol('extra-decl', 'namespace-routes', '%s exists although namespace %s has no %s route' % (hp, ns, auth))
            continue
        generated_ns.append(ns)
        for path, kw in ((hp, 'interface'), (mp, 'implementation')):
            sc = cx.scans.get(path)
            if sc is None:
                cx.viol('missing-decl', 'namespace-routes', 'no %s for namespace %s' % (path, ns))
                continue
            if path in cx.broken:
                cx.rec.note('decl_checks_skipped_in_lexically_broken_file')
                continue
            blocks = objc_blocks(sc, kw)
            cx.count('namespace-routes', collections.Counter({k: len(v) for k, v in blocks.items()}), [cls], path)
            if len(blocks.get(cls, [])) != 1:
                continue
            _, a, b = blocks[cls][0]
            meths = [x for x in objc_methods(sc, a, b, kw == 'interface') if x[0] != 'init']
            sels = collections.Counter((x[0], x[1]) for x in meths)
            for (name, labels), c in sels.items():
                if c > 1:
                    cx.viol('duplicate-decl', 'route', '%s declares -%s twice' % (path, ':'.join(labels) or name))
            used = set()
            for r in routes:
                for ent in route_entries(cf, cx.attr(r, 'style')):
                    name = objc_route_func(r) + (ent[1][0] if ent else '')
                    hits = [x for x in meths if x[0] == name]
                    used.add(name)
                    want_n = 2 if has_optional_arg_field(cx, r) else 1
                    if not hits:
                        cx.viol('missing-decl', 'route', '%s: route %s has no method %s' % (path, objc_route_func(r), name))
                        continue
                    if len(hits) != want_n:
                        cx.viol('duplicate-decl' if len(hits) > want_n else 'missing-decl', 'route-variant',
                                '%s: %d methods named %s, expected %d' % (path, len(hits), name, want_n))
                    task = cf['style_to_request'].get(ent[0] if ent else cx.attr(r, 'style'))

                    def tname(t):
                        bb = idx.base(t)
                        return 'DBNilObject *' if bb[0] == 'prim' else db(bb[1], bb[2]) + ' *'
                    wantret = '%s<%s, %s> *' % (task, tname(r['result']), tname(r['error'])) if kw == 'interface' else task + ' *'
                    for x in hits:
                        if x[2] != wantret:
                            cx.viol('wrong-decl', 'route-task-type', '%s: -%s returns %s, expected %s' % (path, name, x[2], wantret))
                    labels, _ = arg_labels(cx, r)
                    extra = [e[0] for e in ent[1][1]] if ent else []
                    full = [x for x in hits if len(x[1]) == max(len(y[1]) for y in hits)][0]
                    wantl = labels + extra
                    wantl = [name] + wantl[1:] if wantl else []   # the method name labels the first argument
                    if list(full[1]) != wantl:
                        cx.viol('wrong-decl', 'route-parameters', '%s: -%s takes %s, expected %s' % (path, name, list(full[1]), wantl))
            for x in meths:
                if x[0] not in used:
                    cx.viol('extra-decl', 'route', '%s declares -%s which is no %s route of the spec' % (path, x[0], auth))
    hp, mp = 'Client/%s.h' % cf['module'], 'Client/%s.m' % cf['module']
    sc = cx.scans.get(hp)
    if sc is None:
        cx.viol('missing-decl', 'client-file', 'no %s' % hp)
    elif hp not in cx.broken:
        cx.count('client-class', collections.Counter({k: len(v) for k, v in objc_blocks(sc, 'interface').items()}), [cf['cls']], hp)
        props = collections.Counter((m.group(1), m.group(2)) for m in finditer(
            sc, r'^@property \([^)]*\) (\w+) \* ?(\w+);[ \t]*$'))
        cx.count('namespace-member', props, [('DB%s%sAuthRoutes' % (ns_caps(ns), pascal(auth)), camel(ns) + 'Routes')
                                             for ns in generated_ns], hp)
    sc = cx.scans.get(mp)
    if sc is None:
        cx.viol('missing-decl', 'client-file', 'no %s' % mp)
    elif mp not in cx.broken:
        cx.count('client-class', collections.Counter({k: len(v) for k, v in objc_blocks(sc, 'implementation').items()}), [cf['cls']], mp)
        init = collections.Counter((m.group(1), m.group(2)) for m in finditer(
            sc, r'^[ \t]*_(\w+) = \[\[(\w+) alloc\] init:client\];[ \t]*$'))
        cx.count('namespace-member-init', init, [(camel(ns) + 'Routes', 'DB%s%sAuthRoutes' % (ns_caps(ns), pascal(auth)))
                                                  for ns in generated_ns], mp)
    if 'obj_c_types' not in reg['failed']:
        objc_ref_check(cx, reg, is_static(cx.backend))


# ---------------------------------------------------------------------------------------
# driver

def conf(backend):
    """(client args, style -> request class, auth type, module, class, transport) a client backend was given."""
    args = backends.CONFIGS[backend][1]

    def opt(flag):
        return args[args.index(flag) + 1] if flag in args else None
    return {'client_args': json.loads(opt('-y') or '{}'), 'style_to_request': json.loads(opt('-z') or '{}'),
            'auth': opt('-w'), 'module': opt('-m'), 'cls': opt('-c'), 'transport': opt('-t')}


def is_static(backend):
    if backend == 'swift_types':
        return lambda p: p in STATIC_SWIFT
    if backend == 'obj_c_types':
        return lambda p: p.startswith('Resources/')
    return lambda p: False


def after_swift_types(cx, reg):
    reg['swift_ns'] = swift_types_decls(cx, is_static(cx.backend))
    for path, sc in cx.scans.items():
        reg['swift_top'] |= swift_top_decls(sc)
    sc = cx.scans.get('StoneSerializers.swift')
    if sc is not None:
        reg['swift_serialization'] = {m.group(1) for m in finditer(sc, r'^[ \t]*static (?:var|let) (\w+)')}
    check_swift_types(cx)
    swift_ref_check(cx, reg, is_static(cx.backend), set())


CHECKERS = collections.OrderedDict([
    ('swift_types', after_swift_types),
    ('swift_types_objc', check_swift_types_objc),
    ('swift_client', check_swift_client),
    ('swift_client_objc', check_swift_client_objc),
    ('obj_c_types', check_obj_c_types),
    ('obj_c_client', check_obj_c_client),
])


def classes_of(api):
    idx = M.Index(api)
    fs = gen.features(api)
    cls = set(fs & {'map', 'list', 'nest2', 'nullable', 'xns_ref', 'xns_parent', 'inheritance', 'enumerated_subtypes',
                    'union_inheritance', 'default', 'tag_default', 'alias_use', 'route', 'route_version', 'deprecated',
                    'multi_ns'})
    nontrivial = False

    def visit(t):
        nonlocal nontrivial
        for s in M.walk_types(t):
            if s[0] == 'map' and idx.base(s[2])[0] == 'ref':
                cls.add('map_of_user_type')
                nontrivial = True
            if s[0] == 'map' and s[2][0] == 'alias':
                cls.add('map_of_alias')
            if s[0] == 'list' and idx.base(s[1])[0] == 'list':
                inner = idx.base(s[1])
                while inner[0] == 'list':
                    inner = idx.base(inner[1])
                if inner[0] == 'ref':
                    cls.add('nested_list_of_user_type')
                    nontrivial = True
            if s[0] == 'list' and idx.base(s[1])[0] == 'ref':
                cls.add('list_of_user_type')
            if s[0] == 'nullable' and idx.base(s[1])[0] == 'ref':
                cls.add('nullable_user_type')
                tgt = idx.get(*idx.base(s[1])[1:])
                if tgt['k'] == 'struct' and (tgt.get('subtypes') or idx.subtree_tag(idx.base(s[1])[1], tgt)):
                    cls.add('nullable_subtype')
                nontrivial = True
    for ns, d in idx.types():
        for m in d.get('fields') or d.get('tags') or []:
            if m['type'] is not None:
                visit(m['type'])
            dv = m.get('default')
            if dv is not None and dv[0] == 'lit' and isinstance(dv[1], str):
                cls.add('string_default')
                if any(c in dv[1] for c in '"\\\n\t'):
                    cls.add('string_default_with_quoting_chars')
                    nontrivial = True
    for ns, r in idx.routes():
        cls.add('style_' + str(r['attrs'].get('style', ('lit', 'rpc'))[1]))
        for io in ('arg', 'result', 'error'):
            b = idx.base(r[io])
            if b[0] == 'ref':
                cls.add('route_%s_%s' % (io, idx.get(b[1], b[2])['k']))
    return sorted(cls), nontrivial


def run(case, rec):
    api = case['api']
    specs, _ = render.render(api)
    if not in_domain(api):
        rec.note('outside_naming_domain(reserved word or concatenation collision)')
        return
    kind, payload = front.compile_specs(specs)
    if kind != 'api':
        rec.note('frontend_refused(judged by C01/C03)')
        return
    classes, nontrivial = classes_of(api)
    spec_key = repr(specs)
    reg = {'swift_ns': {}, 'swift_top': set(), 'swift_serialization': set(), 'failed': set(),
           'objc': set(), 'objc_extra': set()}
    for backend, checker in CHECKERS.items():
        rec.case(core.h64((spec_key, backend)), nontrivial, classes=[backend] + classes,
                 sample=lambda: {'backend': backend, 'files': [(p, t[:400]) for p, t in specs[:2]]})
        # same steps as backends.generate(), but the frontend runs once per case: every backend gets its own
        # deep copy of the accepted API (backends rewrite it, e.g. when aliases are removed)
        out = tempfile.mkdtemp(prefix='sv_c17_')
        try:
            backends.run_backend(backend, copy.deepcopy(payload), out)
            files = backends.read_tree(out, skip=set(backends.CONFIGS[backend][2]))
        except backends.BackendCrash as e:
            reg['failed'].add(backend)
            rec.violation('C17|backend-crash|%s|%s' % (backend, tb_text_sig(e.tb)),
                          '%s failed on an accepted spec: %s' % (backend, e.tb.strip().split('\n')[-1][:200]),
                          case=case, human=specs)
            continue
        finally:
            shutil.rmtree(out, ignore_errors=True)
        cx = Cx(api, backend, rec, case, specs)
        lex_files(cx, files, is_static(backend))
        checker(cx, reg)


QUOTING_DEFAULTS = ['say "hi" \\', '"', '\\', 'a"b"c', 'C:\\dir', 'tab\there', "it's", '\\(x)', 'a\\', '""', '/* x', '// y {']


def enrich(draw, api):
    """Bias towards the classes this property is about (the shared generator produces them rarely): maps / nested
    lists / nullables of user types incl. enumerated-subtype roots, and string defaults with quoting characters.
    Only adds optional-by-construction members (containers and nullables), so validity is preserved."""
    def p(percent):
        return draw(st.integers(0, 99)) < percent
    idx = M.Index(api)
    k = 0
    for n in api['namespaces']:
        visible = [(x, d) for x in [n['name']] + list(n['imports']) for d in idx.ns[x]['defs']
                   if d['k'] in ('struct', 'union')]
        for d in n['defs']:
            if d['k'] == 'struct':
                for f in d['fields']:
                    b = idx.unalias(f['type'])
                    if f['default'] is not None and f['default'][0] == 'lit' and isinstance(f['default'][1], str) \
                            and b == M.prim('String') and p(45):
                        f['default'] = ('lit', draw(st.sampled_from(QUOTING_DEFAULTS)))
            if d['k'] in ('struct', 'union') and visible and p(40):
                tn, td = draw(st.sampled_from(visible))
                roots = [(x, y) for x, y in visible if y.get('subtypes')]
                if roots and p(50):
                    tn, td = draw(st.sampled_from(roots))
                ref = ('ref', tn, td['name'])
                s = M.prim('String')
                shapes = [('list', ('list', ref, None, None), None, None), ('map', s, ref),
                          ('nullable', ('list', ('map', s, ref), None, None)), ('map', s, ('list', ref, None, None)),
                          ('nullable', ref), ('list', ('nullable', ref), None, None),
                          ('list', ('list', ('list', M.prim('Int64'), None, None), None, None), None, None),
                          ('map', s, ('nullable', ref)), ('nullable', ('map', s, ('map', s, ref)))]
                if d['k'] == 'struct':
                    # nested lists of non-numeric primitives take their own path through the --objc wrappers
                    ts = M.prim('Timestamp', format='%Y-%m-%dT%H:%M:%SZ')
                    for leaf in (s, M.prim('Bytes'), ts, M.prim('Boolean'), M.prim('Float64')):
                        ll = ('list', ('list', leaf, None, None), None, None)
                        shapes += [ll, ('nullable', ll), ('list', ll, None, None), ('map', s, ll)]
                t = draw(st.sampled_from(shapes))
                k += 1
                name = 'extra_member_%d' % k
                if d['k'] == 'struct':
                    d['fields'].append({'name': name, 'type': t, 'doc': None, 'default': None, 'annots': []})
                else:
                    d['tags'].append({'name': name, 'type': t, 'doc': None, 'annots': []})
    return api


@st.composite
def cases(draw):
    api = draw(gen.api_models(gen.Cfg(**C17_CFG)).filter(in_domain))
    if draw(st.integers(0, 3)):
        api = enrich(draw, api)
    return {'api': api}


def parts(ctx):
    return [Part('swift_objc', run, strategy=cases(), n=ctx.n(480, 12000), budget_s=ctx.n(70, 3000))]


def floors(ctx, classes, evaluations, notes):
    """Generator health (exit 2, never a violation): the classes this property is about must be present."""
    out = []
    if evaluations < 60:
        return ['only %d (spec, backend) evaluations' % evaluations]
    for name, pct in (('map_of_user_type', 5), ('nested_list_of_user_type', 2), ('nullable_user_type', 5),
                      ('string_default_with_quoting_chars', 1), ('xns_ref', 3), ('enumerated_subtypes', 2),
                      ('route_arg_struct', 5), ('route_arg_union', 5), ('style_upload', 3), ('style_download', 3)):
        if classes.get(name, 0) * 100 < pct * evaluations:
            out.append('class %s: %d of %d evaluations (< %d%%)' % (name, classes.get(name, 0), evaluations, pct))
    for b in backends.SWIFT_OBJC:
        if classes.get(b, 0) == 0:
            out.append('backend %s was never run' % b)
    return out
