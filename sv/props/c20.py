"""C20 - a route whitelist yields a dependency-closed, minimal API."""
import json
import os
import re
import subprocess
import sys

from hypothesis import strategies as st

from .. import core, front, gen, render, pygen, model as M, REPO
from ..core import Part
from .c09 import SCRIPT, classify_import_error, tb_text_sig

RULE = ('generated multi-namespace specs (cross-namespace fields, parents, enumerated subtypes, alias '
        'chains, maps, tag defaults, doc references to types, fields and routes) x random whitelists '
        '(route subsets incl. versions and `*`, data-type subsets); oracle: reference dependency closure '
        'computed on the model (field types through List / Map / Nullable / Alias, parents, enumerated '
        'subtypes, doc references of retained types, fields, aliases, whitelisted routes and namespace '
        'docs): retained data types == closure, every whitelisted and doc-referenced route retained, no '
        'retained field / parent / subtype list / alias target / route signature names a removed type, '
        'and python_types output of the filtered API imports in a fresh interpreter for every first-import '
        'choice. non-trivial = whitelist strictly between empty and everything with a dependency edge '
        'crossing a namespace; distinct by (spec, whitelist). Spec files are handed to the compiler in a drawn order; one spec in three carries the same type names and the same doc text in two namespaces.')
ASSUMPTIONS = ['Only whitelists naming existing namespaces, routes and types are generated.']
DOC_REF = re.compile(r':(?P<tag>[A-z]+):`(?P<val>.*?)`')

C20_CFG = dict(alias_nesting_bias=True, schema=None, omitted=False, annotations=False, max_ns=4, max_types=6, max_routes=4, examples=False,
               patches=True, route_io_any=True, route_container_bias=True)


def type_refs(idx, t, out, aliases):
    """user types a type expression depends on (aliases followed, and recorded)."""
    k = t[0]
    if k == 'ref':
        out.add((t[1], t[2]))
    elif k == 'alias':
        if (t[1], t[2]) not in aliases:
            aliases.add((t[1], t[2]))
            type_refs(idx, idx.get(t[1], t[2])['type'], out, aliases)
    elif k in ('nullable', 'list'):
        type_refs(idx, t[1], out, aliases)
    elif k == 'map':
        type_refs(idx, t[1], out, aliases)
        type_refs(idx, t[2], out, aliases)


def doc_targets(idx, doc, ns):
    """(types, routes) mentioned by the doc references of a doc string written in namespace ns."""
    types, routes = set(), set()
    if not doc:
        return types, routes
    for m in DOC_REF.finditer(doc):
        tag, val = m.group('tag'), m.group('val')
        if tag == 'type':
            n, name = val.split('.', 1) if '.' in val else (ns, val)
            if (n, name) in idx.defs:
                types.add((n, name))
        elif tag == 'field' and '.' in val:
            name = val.split('.', 1)[0]
            if (ns, name) in idx.defs and idx.defs[(ns, name)]['k'] in ('struct', 'union'):
                types.add((ns, name))
        elif tag == 'route':
            n, rv = val.split('.', 1) if '.' in val else (ns, val)
            name, ver = (rv.split(':', 1) + ['1'])[:2] if ':' in rv else (rv, '1')
            routes.add((n, name, int(ver)))
    return types, routes


class Closure:
    def __init__(self, api):
        self.api = api
        self.idx = M.Index(api)
        self.types = set()
        self.routes = set()
        self.aliases = set()
        self.docs_done = set()
        self.route_defs = {(n, r['name'], r['version']): r for n, r in self.idx.routes()}

    def add_doc(self, doc, ns):
        ts, rs = doc_targets(self.idx, doc, ns)
        for t in ts:
            self.add_type(t)
        for r in rs:
            if r in self.route_defs:
                self.add_route(r, via_doc=True)

    def add_texpr(self, t):
        refs, als = set(), set()
        type_refs(self.idx, t, refs, als)
        for a in als:
            if a not in self.aliases:
                self.aliases.add(a)
                self.add_doc(self.idx.get(*a).get('doc'), a[0])
        for r in refs:
            self.add_type(r)

    def add_route(self, key, via_doc=False):
        r = self.route_defs[key]
        if key not in self.routes:
            self.routes.add(key)
            for pos in ('arg', 'result', 'error'):
                self.add_texpr(r[pos])
        if not via_doc and key not in self.docs_done:
            self.docs_done.add(key)
            self.add_doc(r.get('doc'), key[0])

    def add_type(self, key):
        if key in self.types:
            return
        d = self.idx.get(*key)
        if d['k'] not in ('struct', 'union'):
            return
        self.types.add(key)
        ns = key[0]
        members = self.idx.struct_all_fields(ns, d) if d['k'] == 'struct' else self.idx.union_all_tags(ns, d)
        for own_ns, owner, m in members:
            if m.get('type') is not None:
                self.add_texpr(m['type'])
            # a doc reference resolves in the namespace it was written in
            self.add_doc(m.get('doc'), own_ns)
        if d.get('parent'):
            self.add_type(tuple(d['parent']))
        self.add_doc(d.get('doc'), ns)
        if d.get('subtypes'):
            for _, kid in d['subtypes']['items']:
                self.add_type((ns, kid))


def closure_for(api, wl):
    c = Closure(api)
    idx = c.idx
    for ns, reprs in wl['route_whitelist'].items():
        n = idx.ns[ns]
        c.add_doc(n.get('doc'), ns)
        names = reprs
        if reprs == ['*']:
            names = [r['name'] if r['version'] == 1 else '%s:%d' % (r['name'], r['version'])
                     for r in n['defs'] if r['k'] == 'route']
        for rr in names:
            name, ver = (rr.split(':') + ['1'])[:2]
            c.add_route((ns, name, int(ver)))
    for ns, names in wl['datatype_whitelist'].items():
        c.add_doc(idx.ns[ns].get('doc'), ns)
        for name in names:
            c.add_type((ns, name))
    return c


@st.composite
def cases(draw):
    api = draw(gen.api_models(gen.Cfg(**C20_CFG)))
    twins = []
    if len(api['namespaces']) >= 2 and draw(st.integers(0, 2)) == 0:
        # the same names and the same doc text in two namespaces: each reference resolves in its own namespace
        for n in draw(st.permutations(api['namespaces']))[:2]:
            canon = {M.canon(d.get('name', '')) for d in n['defs']} | {M.canon(n['name'])}
            if canon & {'zztwin', 'zzholder', 'zztwinroute'}:
                continue
            n['defs'].append({'k': 'struct', 'name': 'ZzTwin', 'parent': None, 'doc': None, 'subtypes': None, 'examples': [],
                              'patch': 0, 'fields': [{'name': 'x', 'type': M.prim('Int32'), 'doc': None, 'default': None,
                                                      'annots': []}]})
            n['defs'].append({'k': 'struct', 'name': 'ZzHolder', 'parent': None, 'doc': None, 'subtypes': None, 'examples': [],
                              'patch': 0, 'fields': [{'name': 'note', 'type': M.prim('String'), 'default': None, 'annots': [],
                                                      'doc': 'see :type:`ZzTwin` and :route:`zz_twin_route` here'}]})
            n['defs'].append({'k': 'route', 'name': 'zz_twin_route', 'version': 1, 'arg': ('ref', n['name'], 'ZzHolder'),
                              'result': M.VOID, 'error': M.VOID, 'doc': None, 'deprecated': None, 'attrs': {}})
            twins.append(n['name'])
    idx = M.Index(api)
    wls = []
    if len(twins) == 2:
        wls.append({'route_whitelist': {}, 'datatype_whitelist': {t: ['ZzHolder'] for t in twins}})
    for _ in range(draw(st.integers(2, 5))):
        rw, dw = {}, {}
        for n in api['namespaces']:
            routes = [r for r in n['defs'] if r['k'] == 'route']
            types = [d for d in n['defs'] if d['k'] in ('struct', 'union')]
            r = draw(st.integers(0, 9))
            if routes and r < 2:
                rw[n['name']] = ['*']
            elif routes and r < 7:
                pick = [x for x in routes if draw(st.booleans())]
                if pick or draw(st.booleans()):
                    rw[n['name']] = [x['name'] if x['version'] == 1 else '%s:%d' % (x['name'], x['version']) for x in pick]
            if types and draw(st.integers(0, 3)) == 0:
                dw[n['name']] = [x['name'] for x in types if draw(st.integers(0, 2)) == 0]
        wls.append({'route_whitelist': rw, 'datatype_whitelist': dw})
    # the order in which the spec files are handed to the compiler (the filtered API must not depend on it)
    order = draw(st.permutations(list(range(len(api['namespaces']) + (1 if api.get('schema') else 0)))))
    return {'api': api, 'whitelists': wls, 'order': list(order)}


def user_refs_of_ir(dt, out, depth=0):
    from stone.ir import data_types as D
    if depth > 30:
        return
    if isinstance(dt, D.UserDefined):
        out.append((dt.namespace.name, dt.name))
    elif isinstance(dt, D.Alias):
        user_refs_of_ir(dt.data_type, out, depth + 1)
    elif isinstance(dt, (D.Nullable, D.List)):
        user_refs_of_ir(dt.data_type, out, depth + 1)
    elif isinstance(dt, D.Map):
        user_refs_of_ir(dt.key_data_type, out, depth + 1)
        user_refs_of_ir(dt.value_data_type, out, depth + 1)


def run(case, rec):
    api = case['api']
    idx = M.Index(api)
    specs, _ = render.render(api)
    order = case.get('order')
    if order and len(order) == len(specs):
        specs = [specs[i] for i in order]
    kind, full = front.compile_specs(specs)
    if kind != 'api':
        rec.note('not_accepted(judged by C01/C03)')
        return
    all_types = {(n, d['name']) for n, d in idx.types()}
    for wl in case['whitelists']:
        one = {'api': api, 'whitelists': [wl]}
        human = {'files': specs, 'whitelist': wl}
        c = closure_for(api, wl)
        xns = len({k[0] for k in c.types}) > 1
        rec.case(core.h64((repr(specs), json.dumps(wl, sort_keys=True))), 0 < len(c.types) < len(all_types) and xns,
                 classes=['closure_empty' if not c.types else 'closure_all' if c.types == all_types else 'closure_partial'] +
                 (['star'] if any(v == ['*'] for v in wl['route_whitelist'].values()) else []) +
                 (['datatype_whitelist'] if wl['datatype_whitelist'] else []) + (['doc_routes'] if len(c.routes) > sum(
                     len(v) for v in wl['route_whitelist'].values() if v != ['*']) and not any(v == ['*'] for v in wl['route_whitelist'].values()) else []),
                 sample=lambda: {'whitelist': wl, 'closure': sorted('%s.%s' % k for k in c.types)[:12]})

        def viol(kind_, what, detail=''):
            rec.violation('C20|%s|%s' % (kind_, detail), '%s [whitelist %s]' % (what, json.dumps(wl)), case=one, human=human)
        k2, got = front.compile_specs(specs, route_whitelist_filter=wl)
        if k2 != 'api':
            viol('filter-failed', 'compiling with the whitelist gave %s: %r' % (k2, got),
                 core.stone_frame_sig(got) if k2 == 'escape' else k2)
            continue
        retained = {(ns, d.name) for ns, n in got.namespaces.items() for d in n.data_types}
        missing = c.types - retained
        extra = retained - c.types
        if missing:
            viol('dependency-missing', 'types the whitelist depends on were dropped: %s' % sorted(missing)[:5],
                 why_needed(c, idx, wl, sorted(missing)[0]))
        if extra:
            viol('not-minimal', 'types outside the dependency closure were retained: %s' % sorted(extra)[:5])
        got_routes = {(ns, r.name, r.version) for ns, n in got.namespaces.items() for r in n.routes}
        lost = c.routes - got_routes
        if lost:
            wlr = set()
            for ns, reprs in wl['route_whitelist'].items():
                for rr in reprs:
                    if rr == '*':
                        wlr |= {k for k in c.route_defs if k[0] == ns}
                    else:
                        wlr.add((ns, rr.split(':')[0], int((rr.split(':') + ['1'])[1])))
            viol('route-missing', 'routes that must be visible are missing: %s' % sorted(lost)[:4],
                 'whitelisted' if lost & wlr else 'doc-referenced:' + where_route_mentioned(c, idx, sorted(lost)[0]))
        # nothing retained may point to a removed type
        for ns, n in got.namespaces.items():
            for d in n.data_types:
                refs = []
                for f in d.fields:
                    user_refs_of_ir(f.data_type, refs)
                if d.parent_type is not None:
                    user_refs_of_ir(d.parent_type, refs)
                if getattr(d, '_enumerated_subtypes', None):
                    for sf in d.get_enumerated_subtypes():
                        user_refs_of_ir(sf.data_type, refs)
                dangling = [r for r in refs if r not in retained]
                if dangling:
                    viol('dangling-reference', 'retained type %s.%s refers to removed %s' % (ns, d.name, dangling[:3]), 'type')
            for r in n.routes:
                refs = []
                for dt in (r.arg_data_type, r.result_data_type, r.error_data_type):
                    user_refs_of_ir(dt, refs)
                dangling = [x for x in refs if x not in retained]
                if dangling:
                    viol('dangling-reference', 'retained route %s.%s refers to removed %s' % (ns, r.name, dangling[:3]), 'route')
            for a in n.aliases:
                refs = []
                user_refs_of_ir(a.data_type, refs)
                dangling = [x for x in refs if x not in retained]
                if dangling:
                    viol('dangling-reference', 'retained alias %s.%s refers to removed %s' % (ns, a.name, dangling[:3]), 'alias-target')
        # generated code of the filtered API loads
        try:
            pkg = pygen.PyPkg(specs, api=got, import_now=False)
        except pygen.BuildFailure as e:
            viol('backend-crash', 'python_types failed on the filtered API: %s' % e.tb.strip().split('\n')[-1][:150], tb_text_sig(e.tb))
            continue
        try:
            order_all = list(got.namespaces)
            for i, first in enumerate(order_all[:3]):
                order = [first] + [x for x in order_all if x != first]
                job = {'repo': REPO, 'dir': pkg.tmp, 'pkg': pkg.pkg, 'order': order, 'surface': {}}
                path = os.path.join(pkg.tmp, 'job_%d.json' % i)
                with open(path, 'w') as f:
                    json.dump(job, f)
                pr = subprocess.run([sys.executable, SCRIPT, path], capture_output=True, text=True,
                                    env=dict(os.environ, PYTHONHASHSEED='0'), timeout=300)
                if '##RESULT##' not in pr.stdout:
                    viol('interpreter-died', pr.stderr[-200:])
                    continue
                for kind_, detail, msg in json.loads(pr.stdout.split('##RESULT##')[1]):
                    viol('import', 'code generated from the filtered API does not load: %s' % msg,
                         re.sub(r"module '[^']*'", 'module Q', classify_import_error(msg, api)) if kind_ == 'import' else kind_)
        finally:
            pkg.close()


def where_route_mentioned(c, idx, rkey):
    kinds = set()
    for k in c.types:
        x = idx.get(*k)
        members = idx.struct_all_fields(k[0], x) if x['k'] == 'struct' else idx.union_all_tags(k[0], x)
        for own_ns, _, m in members:
            if rkey in doc_targets(idx, m.get('doc'), own_ns)[1]:
                kinds.add('member-doc')
        if rkey in doc_targets(idx, x.get('doc'), k[0])[1]:
            kinds.add('type-doc')
    for a in c.aliases:
        if rkey in doc_targets(idx, idx.get(*a).get('doc'), a[0])[1]:
            kinds.add('alias-doc')
    for rk in c.routes:
        if rkey in doc_targets(idx, c.route_defs[rk].get('doc'), rk[0])[1]:
            kinds.add('route-doc')
    for n in c.api['namespaces']:
        if rkey in doc_targets(idx, n.get('doc'), n['name'])[1]:
            kinds.add('namespace-doc')
    return '+'.join(sorted(kinds)) or 'other'


def why_needed(c, idx, wl, key):
    """Edge kind through which a missing type is needed (keeps root causes apart)."""
    d = idx.get(*key)
    kinds = set()
    for k in c.types:
        x = idx.get(*k)
        if x.get('parent') and tuple(x['parent']) == key:
            kinds.add('parent')
        if x.get('subtypes') and k[0] == key[0] and any(kid == key[1] for _, kid in x['subtypes']['items']):
            kinds.add('enumerated-subtype')
        members = idx.struct_all_fields(k[0], x) if x['k'] == 'struct' else idx.union_all_tags(k[0], x)
        for _, _, m in members:
            if m.get('type') is not None:
                refs, als = set(), set()
                type_refs(idx, m['type'], refs, als)
                if key in refs:
                    kinds.add('field-via-alias' if als else 'field' + ('-map' if any(s[0] == 'map' for s in M.walk_types(m['type'])) else ''))
            ts, _ = doc_targets(idx, m.get('doc'), k[0])
            if key in ts:
                kinds.add('member-doc')
        ts, _ = doc_targets(idx, x.get('doc'), k[0])
        if key in ts:
            kinds.add('type-doc')
    for rk in c.routes:
        r = c.route_defs[rk]
        for pos in ('arg', 'result', 'error'):
            refs, als = set(), set()
            type_refs(idx, r[pos], refs, als)
            if key in refs:
                kinds.add('route-io' + ('-map' if any(s[0] == 'map' for s in M.walk_types(r[pos])) else '') + ('-via-alias' if als else ''))
        ts, _ = doc_targets(idx, r.get('doc'), rk[0])
        if key in ts:
            kinds.add('route-doc')
    return '+'.join(sorted(kinds)) or 'other'


def parts(ctx):
    return [Part('whitelists', run, strategy=cases(), n=ctx.n(150, 4000), budget_s=ctx.n(150, 3000))]
