"""C02 - the API description is a faithful, closed image of the accepted specs."""
from hypothesis import strategies as st

from .. import core, front, gen, render, ref_ir, model as M
from ..core import Part

RULE = ('valid: generated model rendered under a random layout, compiled, and the returned Api '
        'compared field by field with the reference image of the model (names, order, types and '
        'arguments, nullability, defaults, docs, annotations\' effects, subtypes, aliases, routes '
        'with version/deprecation/attrs incl. schema defaults, implicit `other`), plus closure / '
        'ordering invariants; non-trivial = model uses >=3 feature classes; distinct by model '
        'hash. mutants: accepted outputs of the C03 text mutators, invariants only.')
ASSUMPTIONS = ['The reference image is written from docs/lang_ref.rst and the pinned tests, not from stone code.',
               'Doc-string prefixes added for Deprecated/Preview/Omitted annotations are not judged (undocumented).',
               'Computed examples are judged by C10, not here.']


def context_tags(api, names):
    """Coarse context of a differing item, used in signatures."""
    idx = M.Index(api)
    tags = []
    if len(names) >= 2 and names[1] is not None:
        d = idx.defs.get((names[0], names[1]))
        if d is not None and d['k'] == 'struct':
            for _, _, f in idx.struct_all_fields(names[0], d):
                if f['type'][0] == 'alias' and idx.is_nullable(f['type']):
                    tags.append('alias-nullable-field')
                    break
            if d.get('patch'):
                tags.append('patched')
        elif d is not None and d['k'] == 'union' and d.get('patch'):
            tags.append('patched')
    return tags


def first_leaf_diff(e, a):
    if isinstance(e, (list, tuple)) and isinstance(a, (list, tuple)) and len(e) == len(a):
        for x, y in zip(e, a):
            if M.freeze(x) != M.freeze(y):
                return first_leaf_diff(x, y)
    if isinstance(e, dict) and isinstance(a, dict):
        for k in e:
            if k in a and M.freeze(e[k]) != M.freeze(a[k]):
                return first_leaf_diff(e[k], a[k])
    return e, a


def explain(api, path, names, e, a):
    """Recognise differences fully explained by a specific known root cause, so that the
    signature of that cause is distinct from any other difference at the same place."""
    idx = M.Index(api)
    le, la = first_leaf_diff(e, a)
    if isinstance(le, str) and isinstance(la, str):
        if '\n'.join(le.splitlines()) == la:
            return 'string-linebreaks-normalised'
        for k in (4, 8, 12):
            if '\n'.join(x.replace(' ' * k, '', 1) for x in le.splitlines()) == la:
                return 'string-indent-run-removed'
    if path[-1] in ('all_fields', 'all_required', 'all_optional') and names[1] is not None:
        d = idx.defs.get((names[0], names[1]))
        if d is not None and d['k'] == 'struct':
            ch = idx.chain(names[0], d)

            def syn_opt(f):      # nullability judged without looking through aliases
                return f.get('default') is not None or f['type'][0] == 'nullable'
            req = [f['name'] for _, s in ch for f in s['fields'] if not syn_opt(f)]
            opt = [f['name'] for _, s in ch for f in s['fields'] if syn_opt(f)]
            alt = {'all_fields': req + opt, 'all_required': req, 'all_optional': opt}[path[-1]]
            if alt == a:
                return 'alias-of-nullable-treated-as-required'
    return ''


def locate(exp, path_idx):
    """names (namespace, item) for a diff located by list indices."""
    ns = item = None
    try:
        n = exp['namespaces'][path_idx[0]]
        ns = n['name']
        if len(path_idx) > 2:
            item = n[path_idx[1]][path_idx[2]]['name']
    except Exception:
        pass
    return ns, item


def diff_with_names(exp, act):
    """Like ref_ir.diff but also reports (namespace, item) names for context."""
    out = []
    for i, (e, a) in enumerate(zip(exp['namespaces'], act['namespaces'])):
        if e['name'] != a['name']:
            break
        for key, v in e.items():
            if isinstance(v, list) and v and isinstance(v[0], dict) and key in a and \
                    isinstance(a[key], list) and [x['name'] for x in v] == [x.get('name') for x in a[key]] \
                    and key in ('types', 'aliases'):
                for ei, ai in zip(v, a[key]):
                    for p, x, y in ref_ir.diff(ei, ai, ('namespaces', '[]', key, '[]')):
                        out.append((p, x, y, (e['name'], ei['name'])))
            else:
                for p, x, y in ref_ir.diff({key: v}, a, ('namespaces', '[]')):
                    out.append((p, x, y, (e['name'], None)))
    if [e['name'] for e in exp['namespaces']] != [a['name'] for a in act['namespaces']]:
        out.append((('namespaces', 'names'), [e['name'] for e in exp['namespaces']],
                    [a['name'] for a in act['namespaces']], (None, None)))
    for p, x, y in ref_ir.diff({'route_schema': exp['route_schema']}, act):
        out.append((p, x, y, ('stone_cfg', 'Route')))
    return out


def run_valid(case, rec):
    api, lay = case['api'], case['layout']
    specs, meta = render.render(api, lay)
    fs = gen.features(api)
    kind, payload = front.compile_specs(specs)
    rec.case(core.h64(repr(M.freeze(api))), len(fs) >= 3 and kind == 'api',
             classes=['outcome:' + kind] + sorted(fs),
             sample=lambda: {'files': [(p, t[:600]) for p, t in specs[:2]], 'features': sorted(fs)})
    if kind != 'api':
        rec.note('not_accepted(judged by C01/C03)')
        return
    exp = ref_ir.expected_sig(api, meta)
    act = ref_ir.api_sig(payload)
    for path, e, a, names in diff_with_names(exp, act):
        why = explain(api, path, names, e, a)
        # a string literal rewritten by the lexer is one root cause wherever the literal sits
        where = '*' if why.startswith('string-') else '.'.join(path)
        sig = 'C02|diff|%s|%s' % (where, why)
        rec.violation(sig, 'API description differs from the spec at %s (%s): expected %r, got %r' % (
            '.'.join(path), '.'.join(str(n) for n in names), e, a), case=case, human=specs)
    for b in ref_ir.invariants(payload):
        rec.violation('C02|invariant|' + b, 'invariant broken: ' + b, case=case, human=specs)


def run_mutants(case, rec):
    for specs in case['variants']:
        kind, payload = front.compile_specs(specs)
        rec.case(core.h64(repr(specs)), kind == 'api', classes=['mut_outcome:' + kind],
                 sample=lambda: {'files': [(p, t[:400]) for p, t in specs[:1]]})
        if kind == 'api':
            for b in ref_ir.invariants(payload):
                rec.violation('C02|invariant|' + b, 'invariant broken on accepted mutant: ' + b,
                              case={'variants': [specs]}, human=specs)


def parts(ctx):
    from . import c03
    return [
        Part('valid', run_valid, strategy=gen.frontend_cases(), n=ctx.n(1500, 40000),
             budget_s=ctx.n(100, 3000)),
        Part('mutants', run_mutants, strategy=c03.mutated(), n=ctx.n(500, 20000),
             budget_s=ctx.n(100, 3000)),
    ]


def floors(ctx, classes, evaluations, notes):
    msgs = []
    tot = classes.get('outcome:api', 0) + classes.get('outcome:invalid', 0) + classes.get('outcome:escape', 0)
    if tot and classes.get('outcome:api', 0) < 0.6 * tot:
        msgs.append('fewer than 60%% of generated models are accepted (%d of %d)' % (classes.get('outcome:api', 0), tot))
    for c, frac in (('enumerated_subtypes', 0.05), ('inheritance', 0.2), ('alias', 0.3), ('route', 0.3),
                    ('import', 0.2), ('default', 0.3), ('example', 0.15), ('patch', 0.05)):
        if tot and classes.get(c, 0) < frac * tot:
            msgs.append('feature class %s below floor: %d of %d' % (c, classes.get(c, 0), tot))
    return msgs
