"""Subprocess worker for C12: runs backends on a spec under this process's hash seed and
history, prints {backend: {file: digest}} as JSON."""
import gc
import hashlib
import json
import os
import shutil
import sys
import tempfile
import warnings

warnings.filterwarnings('ignore')
job = json.load(open(sys.argv[1]))
sys.path.insert(0, job['repo'])
sys.path.insert(1, job['verif'])
from sv import backends  # noqa: E402
from stone.frontend.frontend import specs_to_ir  # noqa: E402

specs = [tuple(x) for x in job.get('specs', [])]
other = [tuple(x) for x in job.get('other', [])]
wl = job.get('whitelist')
root = tempfile.mkdtemp(prefix='sv_c12_')
out = {}


_kept = {}


def one_run(sp, b, d, whitelist, keep=False, reuse=None):
    try:
        if reuse is not None and reuse in _kept:
            api = _kept[reuse]      # the API description an earlier step compiled, handed to another backend run
        else:
            api = specs_to_ir(sp, route_whitelist_filter=whitelist) if whitelist else specs_to_ir(sp)
            if reuse is not None:
                _kept.clear()
                _kept[reuse] = api
        backends.run_backend(b, api, d)
        files = backends.read_tree(d, skip=set(backends.CONFIGS[b][2]))
        res = {k: hashlib.blake2b(v, digest_size=8).hexdigest() for k, v in files.items()}
        if keep:
            res['__content__'] = {k: v.decode('utf-8', 'replace') for k, v in files.items()}
        return res
    except backends.BackendCrash as e:
        return {'__crash__': e.tb.strip().split('\n')[-1][:120]}
    except Exception as e:
        return {'__error__': '%s: %s' % (type(e).__name__, str(e)[:100])}


if 'script' in job:
    # a history: steps (spec index, backend, directory, use whitelist) executed in this one process
    steps = []
    try:
        for i, step in enumerate(job['script']):
            si, b, dirname, use_wl = step[:4]
            # an API description is only handed on between backends that leave it as it is: backends without
            # preserve_aliases strip the aliases from the object they are given, by design of the compiler,
            # which compiles the specs anew for every backend run
            keep_api = len(step) > 4 and step[4] and backends.CONFIGS[b][0] in ('python_types', 'python_type_stubs')
            sp = [tuple(x) for x in job['spec_sets'][si]]
            steps.append(one_run(sp, b, os.path.join(root, 'step%d' % i, dirname), wl if use_wl else None,
                                 keep=job.get('keep_step') == i, reuse=(si, bool(use_wl)) if keep_api else None))
            if not keep_api:
                _kept.clear()
            # the API description of a finished step is garbage: let the collector run, as it would
            # at some point in a long-lived build process
            gc.collect()
    finally:
        shutil.rmtree(root, ignore_errors=True)
    print('##RESULT##' + json.dumps({'steps': steps}))
    sys.exit(0)

try:
    if job['history'] == 'after_spec':
        try:
            specs_to_ir(other)
        except Exception:
            pass
    for i, b in enumerate(job['backends']):
        if job['history'] == 'after_backend':
            prev = job['backends'][(i + 3) % len(job['backends'])]
            try:
                backends.run_backend(prev, specs_to_ir(other), os.path.join(root, 'warm_%d' % i))
            except Exception:
                pass
        d = os.path.join(root, job['dirname'], b)
        try:
            api = specs_to_ir(specs, route_whitelist_filter=wl) if wl else specs_to_ir(specs)
            backends.run_backend(b, api, d)
            files = backends.read_tree(d, skip=set(backends.CONFIGS[b][2]))
            out[b] = {k: hashlib.blake2b(v, digest_size=8).hexdigest() for k, v in files.items()}
            if job.get('keep') == b:
                out['__content__'] = {k: v.decode('utf-8', 'replace') for k, v in files.items()}
        except backends.BackendCrash as e:
            out[b] = {'__crash__': e.tb.strip().split('\n')[-1][:120]}
        except Exception as e:
            out[b] = {'__error__': '%s: %s' % (type(e).__name__, str(e)[:100])}
finally:
    shutil.rmtree(root, ignore_errors=True)
print('##RESULT##' + json.dumps(out))
