"""Runs in a fresh interpreter: imports a generated package and checks it against an expected
surface (JSON file given as argv[1]).  Prints a JSON list of [kind, detail, message]."""
import base64
import importlib
import inspect
import json
import sys
import traceback
import warnings

warnings.filterwarnings('ignore')
spec = json.load(open(sys.argv[1]))
sys.path.insert(0, spec['repo'])
sys.path.insert(0, spec['dir'])
problems = []


def P(kind, detail, msg):
    problems.append([kind, detail, msg[:300]])


def finish():
    print('\n##RESULT##' + json.dumps(problems))
    sys.exit(0)


mods = {}
for ns in spec['order']:
    try:
        mods[ns] = importlib.import_module(spec['pkg'] + '.' + ns)
    except BaseException as e:
        tb = traceback.extract_tb(e.__traceback__)
        last = tb[-1] if tb else None
        P('import', type(e).__name__, '%s while importing %s first=%s: %s | %s' % (
            type(e).__name__, ns, spec['order'][0], e, (last.line or '').strip() if last else ''))
        finish()
from stone.backends.python_rsrc import stone_base as bb, stone_validators as bv, stone_serializers as ss  # noqa


def unjson(v):
    if isinstance(v, dict) and '__bytes__' in v:
        return base64.b64decode(v['__bytes__'])
    if isinstance(v, dict) and '__timestamp__' in v:
        import datetime
        return datetime.datetime.strptime(*v['__timestamp__'])
    return v


for ns, surf in spec['surface'].items():
    m = mods[ns]
    for s in surf['structs']:
        name = s['name']
        cls = getattr(m, name, None)
        if not inspect.isclass(cls):
            P('missing-class', 'struct', '%s.%s' % (ns, name))
            continue
        if s['parent']:
            pc = getattr(mods[s['parent'][0]], s['parent'][1], None)
            if pc is None or not issubclass(cls, pc):
                P('inheritance', 'struct', '%s.%s is not a subclass of %s' % (ns, name, s['parent']))
        elif not issubclass(cls, bb.Struct):
            P('inheritance', 'struct-base', '%s.%s is not a bb.Struct' % (ns, name))
        validator = getattr(m, name + '_validator', None)
        if validator is None:
            P('missing-validator', 'struct', '%s.%s_validator' % (ns, name))
            continue
        try:
            params = list(inspect.signature(cls.__init__).parameters)[1:]
        except Exception as e:
            params = repr(e)
        if params != s['all_fields']:
            P('ctor-params', 'struct', '%s.%s(%s) expected %s' % (ns, name, params, s['all_fields']))
        for f in s['all_fields']:
            if not isinstance(inspect.getattr_static(cls, f, None), bb.Attribute):
                P('missing-attribute', 'field', '%s.%s.%s' % (ns, name, f))
        try:
            fresh = cls()
            for f, (kind, dv) in s.get('defaults', {}).items():
                got = getattr(fresh, f)
                if kind == 'tag':
                    if not (isinstance(got, bb.Union) and getattr(got, 'is_' + dv)()):
                        P('default-value', 'tag', '%s.%s.%s reads %r, expected tag %s' % (ns, name, f, got, dv))
                elif kind == 'lit':
                    if got != dv or type(got) is not type(dv):
                        P('default-value', 'literal', '%s.%s.%s reads %r, expected %r' % (ns, name, f, got, dv))
            for f in s.get('nullable', []):
                if getattr(fresh, f) is not None:
                    P('default-value', 'nullable', '%s.%s.%s reads %r, expected None' % (ns, name, f, getattr(fresh, f)))
        except Exception as e:
            P('exercise-defaults', type(e).__name__, '%s.%s: %r' % (ns, name, e))
        if s.get('doc') is not None and not s['abstract']:
            try:
                inst = ss.json_compat_obj_decode(validator, s['doc'])
                if type(inst) is not cls:
                    P('decode-class', 'struct', '%s.%s decoded to %s' % (ns, name, type(inst).__name__))
                kw = {}
                for f in s['set_fields']:
                    v = getattr(inst, f)
                    kw[f] = v
                    setattr(inst, f, v)
                    if getattr(inst, f) != v:
                        P('attribute-roundtrip', 'field', '%s.%s.%s' % (ns, name, f))
                    delattr(inst, f)
                    try:
                        got = getattr(inst, f)
                        if f in s['required']:
                            P('delete-required', 'field', '%s.%s.%s still readable after del: %r' % (ns, name, f, got))
                    except AttributeError:
                        if f not in s['required']:
                            P('delete-optional', 'field', '%s.%s.%s unreadable after del' % (ns, name, f))
                    setattr(inst, f, v)
                inst2 = cls(**kw)
                if inst2 != inst:
                    P('ctor-equal', 'struct', '%s.%s(**fields) != decoded instance' % (ns, name))
                for f in s['all_fields']:
                    if f not in s['set_fields']:
                        try:
                            getattr(inst, f)
                            if f in s['required']:
                                P('unset-required-readable', 'field', '%s.%s.%s' % (ns, name, f))
                        except AttributeError:
                            if f not in s['required']:
                                P('unset-optional-unreadable', 'field', '%s.%s.%s' % (ns, name, f))
            except Exception as e:
                P('exercise-struct', type(e).__name__, '%s.%s: %r' % (ns, name, e))
    for u in surf['unions']:
        name = u['name']
        cls = getattr(m, name, None)
        if not inspect.isclass(cls):
            P('missing-class', 'union', '%s.%s' % (ns, name))
            continue
        if u['parent']:
            pc = getattr(mods[u['parent'][0]], u['parent'][1], None)
            if pc is None or not issubclass(cls, pc):
                P('inheritance', 'union', '%s.%s is not a subclass of %s' % (ns, name, u['parent']))
        elif not issubclass(cls, bb.Union):
            P('inheritance', 'union-base', '%s.%s is not a bb.Union' % (ns, name))
        validator = getattr(m, name + '_validator', None)
        if validator is None:
            P('missing-validator', 'union', '%s.%s_validator' % (ns, name))
            continue
        for tag, void in u['tags']:
            if not callable(getattr(cls, 'is_' + tag, None)):
                P('missing-is', 'tag', '%s.%s.is_%s' % (ns, name, tag))
            if void:
                inst = inspect.getattr_static(cls, tag, None)
                inst = getattr(cls, tag, None)
                if not isinstance(inst, cls) and not (isinstance(inst, bb.Union) and issubclass(cls, type(inst))):
                    P('void-instance', 'tag', '%s.%s.%s is %r' % (ns, name, tag, inst))
                else:
                    try:
                        if not getattr(inst, 'is_' + tag)():
                            P('void-instance-tag', 'tag', '%s.%s.%s.is_%s() is false' % (ns, name, tag, tag))
                    except Exception as e:
                        P('void-instance-tag', type(e).__name__, '%s.%s.%s: %r' % (ns, name, tag, e))
            else:
                if not callable(getattr(cls, tag, None)):
                    P('missing-creator', 'tag', '%s.%s.%s' % (ns, name, tag))
                if not callable(getattr(cls, 'get_' + tag, None)):
                    P('missing-get', 'tag', '%s.%s.get_%s' % (ns, name, tag))
        for tag, doc in u.get('docs', []):
            try:
                inst = ss.json_compat_obj_decode(validator, doc)
                if not getattr(inst, 'is_' + tag)():
                    P('decoded-tag', 'tag', '%s.%s: is_%s false' % (ns, name, tag))
                void = dict(u['tags'])[tag]
                if not void:
                    v = getattr(inst, 'get_' + tag)()
                    inst2 = getattr(cls, tag)(v)
                    if inst2 != inst:
                        P('creator-equal', 'tag', '%s.%s.%s(v) != decoded' % (ns, name, tag))
                for other, ovoid in u['tags']:
                    if other != tag and not ovoid and callable(getattr(cls, 'get_' + other, None)):
                        try:
                            getattr(inst, 'get_' + other)()
                            P('get-wrong-tag', 'tag', '%s.%s.get_%s() did not raise for tag %s' % (ns, name, other, tag))
                        except AttributeError:
                            pass
                        break
            except Exception as e:
                P('exercise-union', type(e).__name__, '%s.%s tag %s: %r' % (ns, name, tag, e))
    for a in surf['aliases']:
        if getattr(m, a['name'] + '_validator', None) is None:
            P('missing-validator', 'alias', '%s.%s_validator' % (ns, a['name']))
        if a['target']:
            tc = getattr(mods[a['target'][0]], a['target'][1], None)
            if getattr(m, a['name'], None) is not tc:
                P('alias-class', 'alias', '%s.%s is not %s' % (ns, a['name'], a['target']))
    routes = getattr(m, 'ROUTES', None)
    if not isinstance(routes, dict):
        P('missing-routes', 'ROUTES', ns)
        routes = {}
    if sorted(routes) != sorted(r['key'] for r in surf['routes']):
        P('routes-keys', 'ROUTES', '%s: %s expected %s' % (ns, sorted(routes), sorted(r['key'] for r in surf['routes'])))
    for r in surf['routes']:
        obj = getattr(m, r['attr'], None)
        if not isinstance(obj, bb.Route):
            P('missing-route', 'route', '%s.%s' % (ns, r['attr']))
            continue
        if routes.get(r['key']) is not obj:
            P('routes-entry', 'route', '%s ROUTES[%r]' % (ns, r['key']))
        if (obj.name, obj.version, bool(obj.deprecated)) != (r['name'], r['version'], r['deprecated']):
            P('route-fields', 'route', '%s.%s: %r' % (ns, r['attr'], (obj.name, obj.version, obj.deprecated)))
        for pos in ('arg', 'result', 'error'):
            v = getattr(obj, pos + '_type', None)
            exp = r[pos]
            if v is None:
                P('route-validator', pos, '%s.%s.%s_type is None' % (ns, r['attr'], pos))
            elif exp[0] == 'named':
                want = getattr(mods[exp[1]], exp[2] + '_validator', None)
                if v is not want:
                    P('route-validator', pos, '%s.%s.%s_type is not %s_validator' % (ns, r['attr'], pos, exp[2]))
            elif type(v).__name__ != exp[1]:
                P('route-validator', pos, '%s.%s.%s_type is %s, expected %s' % (ns, r['attr'], pos, type(v).__name__, exp[1]))
        want = {k: unjson(v) for k, v in r['attrs'].items()}
        if obj.attrs != want:
            P('route-attrs', 'route', '%s.%s attrs %r expected %r' % (ns, r['attr'], obj.attrs, want))
finish()
