"""Runner core: seeded, sharded Hypothesis exploration that *collects* violations
(bucketed by root-cause signature) instead of stopping at the first, shrinks only
unlisted ones, writes replay files and the evidence file.

Exit codes: 0 property held on everything explored (or only listed known findings),
1 new violation (prints ``VIOLATION property=<id> replay=<path>``), 2 harness error.
"""
import base64
import collections
import hashlib
import json
import os
import pickle
import sys
import time
import traceback

from . import VERIF_DIR, REPO

KNOWN_FINDINGS = os.path.join(VERIF_DIR, 'known_findings.json')
EVIDENCE_DIR = os.environ.get('SV_EVIDENCE_DIR') or os.path.join(VERIF_DIR, 'evidence')
REPLAY_DIR = os.environ.get('SV_REPLAY_DIR') or os.path.join(VERIF_DIR, 'replays')
CORPUS_DIR = os.path.join(VERIF_DIR, 'corpus')
NPROC = int(os.environ.get('SV_NPROC', '16'))


class HarnessError(Exception):
    pass


def h64(obj):
    if not isinstance(obj, (bytes, bytearray)):
        obj = repr(obj).encode('utf-8', 'surrogatepass')
    return hashlib.blake2b(obj, digest_size=8).hexdigest()


def derive_seed(*parts):
    return int(hashlib.blake2b(repr(parts).encode(), digest_size=6).hexdigest(), 16)


def stone_frame_sig(exc):
    """Root-cause key for an exception escaping stone: exception type and the innermost
    frame that lies inside the tree under test (file, function, stripped source text --
    text rather than line number so that unrelated edits do not shift it)."""
    tb = traceback.extract_tb(exc.__traceback__)
    inner = None
    for fr in tb:
        fn = fr.filename.replace('\\', '/')
        if '/stone/' in fn and '/sv/' not in fn:
            inner = fr
    if inner is None:
        inner = tb[-1] if tb else None
    if inner is None:
        return '%s|?' % type(exc).__name__
    fn = inner.filename.replace('\\', '/')
    fn = fn.split('/stone/', 1)[-1] if '/stone/' in fn else os.path.basename(fn)
    return '%s|%s:%s|%s' % (type(exc).__name__, fn, inner.name, (inner.line or '').strip()[:100])


class Recorder:
    MAX_SAMPLES = 4

    def __init__(self):
        self.evaluations = 0
        self.keys = set()
        self.classes = collections.Counter()
        self.samples = []
        self.violations = {}
        self.notes = collections.Counter()
        self.skipped = 0

    def case(self, key, nontrivial, classes=(), sample=None):
        self.evaluations += 1
        for c in classes:
            self.classes[c] += 1
        if nontrivial:
            k = key if isinstance(key, str) and len(key) == 16 else h64(key)
            if k not in self.keys:
                self.keys.add(k)
                if sample is not None and len(self.samples) < self.MAX_SAMPLES:
                    self.samples.append(sample() if callable(sample) else sample)

    def note(self, name, n=1):
        self.notes[name] += n

    def violation(self, sig, what, case=None, human=None):
        try:
            blob = pickle.dumps(case)
        except Exception:  # pragma: no cover
            blob = pickle.dumps(None)
        v = self.violations.get(sig)
        if v is None:
            self.violations[sig] = {'sig': sig, 'what': what, 'case': blob, 'human': human,
                                    'count': 1}
        else:
            v['count'] += 1
            if len(blob) < len(v['case']):
                v.update(what=what, case=blob, human=human)

    def result(self):
        return {'evaluations': self.evaluations, 'keys': self.keys, 'classes': self.classes,
                'samples': self.samples, 'violations': self.violations, 'notes': self.notes,
                'skipped': self.skipped}


class Ctx:
    def __init__(self, prop, tier, seed):
        self.prop = prop
        self.tier = tier
        self.seed = seed
        self.quick = tier == 'quick'

    def n(self, quick, thorough):
        if self.quick:
            return quick
        # SV_THOROUGH_SCALE < 1 shrinks the thorough tier (case counts and time budgets) for smoke runs
        scale = float(os.environ.get('SV_THOROUGH_SCALE', '1'))
        return thorough if scale == 1 else max(quick, int(thorough * scale))


class Part:
    """One generated-input search: ``strategy`` (Hypothesis) or ``enumerate`` (callable
    (shard, nshards) -> iterable, exhaustive) feeding ``run(case, rec)``."""

    def __init__(self, name, run, strategy=None, enumerate=None, n=100, shards=None,
                 budget_s=None, human=None, exhaustive=False, reduce=None):
        self.name = name
        self.run = run
        self.strategy = strategy
        self.enumerate = enumerate
        self.n = n
        self.shards = shards
        self.budget_s = budget_s
        self.human = human or (lambda case: repr(case)[:2000])
        self.exhaustive = exhaustive
        self.reduce = reduce      # optional (case, sig) -> smaller case, replaces Hypothesis shrinking


def _hyp_settings(n, shrink=False):
    from hypothesis import settings, HealthCheck, Phase
    phases = [Phase.generate] + ([Phase.shrink] if shrink else [])
    return settings(max_examples=max(1, n), database=None, deadline=None, derandomize=False,
                    phases=phases, report_multiple_bugs=False,
                    suppress_health_check=[HealthCheck.too_slow, HealthCheck.data_too_large,
                                           HealthCheck.large_base_example],
                    print_blob=False)


def _safe_run(part, case, rec, beat=None):
    if beat is not None:
        beat[0] = time.time()
    try:
        part.run(case, rec)
    except Exception as e:  # an exception in sv/ itself is a harness error, never a violation
        if type(e).__module__.startswith('hypothesis'):
            raise
        raise HarnessError('harness exception in part %s: %s\n%s' % (
            part.name, e, traceback.format_exc())) from e


def run_shard(mod_name, prop, tier, seed, part_index, shard, nshards):
    """Executed in a worker process."""
    import importlib
    import warnings
    warnings.filterwarnings('ignore', category=SyntaxWarning)
    warnings.filterwarnings('ignore', category=DeprecationWarning)
    t0 = time.time()
    mod = importlib.import_module(mod_name)
    ctx = Ctx(prop, tier, seed)
    part = mod.parts(ctx)[part_index]
    rec = Recorder()
    err = None
    beat = [time.time()]

    import threading
    stop = threading.Event()

    def watchdog():
        # a single case that never returns must not hang the check: give up on the shard
        while not stop.wait(5):
            if time.time() - beat[0] > float(os.environ.get('SV_CASE_TIMEOUT', '420')):
                sys.stderr.write('HARNESS-ERROR: a case of part %s shard %d did not finish\n' % (part.name, shard))
                sys.stderr.flush()
                os._exit(3)
    threading.Thread(target=watchdog, daemon=True).start()
    try:
        if part.enumerate is not None:
            for case in part.enumerate(shard, nshards):
                if part.budget_s and time.time() - t0 > part.budget_s:
                    rec.skipped += 1
                    continue
                _safe_run(part, case, rec, beat)
        else:
            import hypothesis
            n = (part.n + nshards - 1) // nshards

            @hypothesis.seed(derive_seed(prop, part.name, seed, shard))
            @_hyp_settings(n)
            @hypothesis.given(part.strategy)
            def explore(case):
                if part.budget_s and time.time() - t0 > part.budget_s:
                    rec.skipped += 1
                    return
                _safe_run(part, case, rec, beat)
            explore()
    except HarnessError as e:
        err = str(e)
    except Exception as e:
        err = 'harness/hypothesis error in part %s shard %d: %r\n%s' % (
            part.name, shard, e, traceback.format_exc())
    stop.set()
    res = rec.result()
    res.update(part=part.name, part_index=part_index, shard=shard, nshards=nshards, error=err,
               wall=time.time() - t0)
    for v in res['violations'].values():
        v['shard'] = shard
        v['nshards'] = nshards
        v['part_index'] = part_index
    return res


def shrink_violation(mod_name, prop, tier, seed, part_index, shard, nshards, sig, budget_s=120):
    """Re-run the same seeded strategy, fail on cases producing `sig`, let Hypothesis shrink."""
    import importlib
    import hypothesis
    t0 = time.time()
    mod = importlib.import_module(mod_name)
    ctx = Ctx(prop, tier, seed)
    part = mod.parts(ctx)[part_index]
    if part.reduce is not None:
        return None
    if part.strategy is None:
        return None
    best = {}
    n = (part.n + nshards - 1) // nshards

    class Hit(Exception):
        pass

    @hypothesis.seed(derive_seed(prop, part.name, seed, shard))
    @_hyp_settings(n, shrink=True)
    @hypothesis.given(part.strategy)
    def hunt(case):
        if time.time() - t0 > budget_s:
            return
        rec = Recorder()
        try:
            part.run(case, rec)
        except Exception:
            return
        if sig in rec.violations:
            best['v'] = rec.violations[sig]
            raise Hit()
    try:
        hunt()
    except BaseException:
        pass
    return best.get('v')


def reduce_violation(mod_name, prop, tier, seed, v):
    """Custom (delta-debugging) reduction of a recorded violation."""
    import importlib
    mod = importlib.import_module(mod_name)
    part = mod.parts(Ctx(prop, tier, seed))[v['part_index']]
    if part.reduce is None:
        return None
    try:
        case = part.reduce(pickle.loads(v['case']), v['sig'])
        rec = Recorder()
        part.run(case, rec)
        return rec.violations.get(v['sig'])
    except Exception:
        return None


def load_known():
    if not os.path.exists(KNOWN_FINDINGS):
        return []
    with open(KNOWN_FINDINGS) as f:
        return json.load(f)['findings']


def write_replay(prop, mod_name, v):
    d = os.path.join(REPLAY_DIR, prop)
    os.makedirs(d, exist_ok=True)
    path = os.path.join(d, 'viol_%s.json' % h64(v['sig']))
    with open(path, 'w') as f:
        json.dump({'property': prop, 'module': mod_name, 'part_index': v.get('part_index'),
                   'signature': v['sig'], 'what': v['what'], 'human': v['human'],
                   'case_pickle_b64': base64.b64encode(v['case']).decode()}, f, indent=1,
                  default=repr)
    return path


def replay_file(mod, prop, path):
    with open(path) as f:
        doc = json.load(f)
    ctx = Ctx(prop, 'quick', 0)
    part = mod.parts(ctx)[doc['part_index']]
    case = pickle.loads(base64.b64decode(doc['case_pickle_b64']))
    rec = Recorder()
    _safe_run(part, case, rec)
    return doc, rec


def main_check(prop, mod_name, tier, seed, replay=None):
    import importlib
    from concurrent.futures import ProcessPoolExecutor
    import multiprocessing
    t0 = time.time()
    mod = importlib.import_module(mod_name)
    known = [k for k in load_known() if k['property'] == prop]
    known_sigs = {k['signature']: k for k in known if k.get('status') == 'known'}

    if replay:
        doc, rec = replay_file(mod, prop, replay)
        bad = [s for s in rec.violations if s not in known_sigs]
        for s in rec.violations:
            if s in known_sigs:
                print('KNOWN-FINDING: property=%s %s' % (prop, known_sigs[s]['what_fails']))
        if bad:
            for s in bad:
                print('  signature: %s\n  %s' % (s, rec.violations[s]['what']))
            print('VIOLATION property=%s replay=%s' % (prop, replay))
            return 1
        print('replay %s: no violation' % replay)
        return 0

    ctx = Ctx(prop, tier, seed)
    parts = mod.parts(ctx)
    tasks = []
    for pi, part in enumerate(parts):
        ns = part.shards or NPROC
        if part.strategy is not None:
            ns = max(1, min(ns, part.n // 8 or 1))
        for s in range(ns):
            tasks.append((mod_name, prop, tier, seed, pi, s, ns))
    mpctx = multiprocessing.get_context('fork')
    results = []
    broken = []
    with ProcessPoolExecutor(max_workers=NPROC, mp_context=mpctx) as ex:
        futs = [ex.submit(run_shard, *t) for t in tasks]
        for f, t in zip(futs, tasks):
            try:
                results.append(f.result())
            except Exception as e:
                broken.append('shard %r of part %d lost: %r' % (t[5], t[4], e))

    errors = [r['error'] for r in results if r['error']] + broken
    per_part = collections.OrderedDict()
    keys = set()
    classes = collections.Counter()
    notes = collections.Counter()
    violations = {}
    samples = []
    evaluations = 0
    skipped = 0
    for r in results:
        pp = per_part.setdefault(r['part'], {'evaluations': 0, 'distinct_nontrivial': set(),
                                             'wall_max_s': 0.0, 'skipped_for_time': 0})
        pp['evaluations'] += r['evaluations']
        pp['distinct_nontrivial'] |= r['keys']
        pp['wall_max_s'] = round(max(pp['wall_max_s'], r['wall']), 2)
        pp['skipped_for_time'] += r['skipped']
        evaluations += r['evaluations']
        skipped += r['skipped']
        keys |= {(r['part'], k) for k in r['keys']}
        classes.update(r['classes'])
        notes.update(r['notes'])
        for s in r['samples']:
            if len(samples) < 6 and s not in samples:
                samples.append(s)
        for sig, v in r['violations'].items():
            o = violations.get(sig)
            if o is None:
                violations[sig] = v
            else:
                cnt = o['count'] + v['count']
                if len(v['case']) < len(o['case']):
                    violations[sig] = v
                violations[sig]['count'] = cnt
    for pp in per_part.values():
        pp['distinct_nontrivial'] = len(pp['distinct_nontrivial'])
    for p in parts:
        if p.exhaustive and p.name in per_part:
            per_part[p.name]['exhaustive'] = per_part[p.name]['skipped_for_time'] == 0

    new = {s: v for s, v in violations.items() if s not in known_sigs}
    hit_known = {s: v for s, v in violations.items() if s in known_sigs}

    # generator-health floors declared by the module
    floor_msgs = []
    if hasattr(mod, 'floors') and not errors and skipped == 0:
        # (a run cut short by its time budget is inconclusive; its class distribution is not judged)
        floor_msgs = mod.floors(ctx, classes, evaluations, notes) or []

    rc = 0
    lines = []
    for s, v in sorted(hit_known.items()):
        lines.append('KNOWN-FINDING: property=%s %s (hit %d times)' % (
            prop, known_sigs[s]['what_fails'], v['count']))
    replay_paths = []
    if new:
        rc = 1
        # shrink a few of the new ones
        todo = sorted(new.values(), key=lambda v: len(v['case']))[:int(os.environ.get('SV_SHRINK_MAX', '4'))]
        if os.environ.get('SV_NO_SHRINK') != '1':
            with ProcessPoolExecutor(max_workers=NPROC, mp_context=mpctx) as ex:
                futs = {}
                for v in sorted(new.values(), key=lambda v: len(v['case']))[:40]:
                    if parts[v['part_index']].reduce is not None:
                        futs[v['sig']] = ex.submit(reduce_violation, mod_name, prop, tier, seed, v)
                for v in todo:
                    if v['sig'] in futs:
                        continue
                    futs[v['sig']] = ex.submit(shrink_violation, mod_name, prop, tier, seed,
                                               v['part_index'], v['shard'], v['nshards'], v['sig'],
                                               60 if tier == 'quick' else 240)
                for sig, f in futs.items():
                    try:
                        b = f.result()
                    except Exception:
                        b = None
                    if b is not None and len(b['case']) <= len(new[sig]['case']):
                        new[sig].update(case=b['case'], what=b['what'], human=b['human'])
        for s, v in sorted(new.items()):
            path = write_replay(prop, mod_name, v)
            replay_paths.append(path)
            lines.append('  signature: %s' % s)
            lines.append('  what: %s (seen %d times)' % (v['what'], v['count']))
            lines.append('VIOLATION property=%s replay=%s' % (prop, path))
    if errors or floor_msgs:
        rc = 2 if rc == 0 else rc
        for e in errors[:5]:
            lines.append('HARNESS-ERROR: %s' % e)
        for m in floor_msgs:
            lines.append('HARNESS-ERROR (generator floor): %s' % m)

    wall = time.time() - t0
    ev = {
        'property_id': prop, 'tier': tier, 'seed': seed, 'level': 'exploration',
        'coverage': {
            'evaluations': evaluations,
            'distinct_nontrivial': len(keys),
            'rule': getattr(mod, 'RULE', ''),
            'samples': samples,
            'parts': per_part,
            'classes': dict(sorted(classes.items())),
            'notes': dict(sorted(notes.items())),
            'skipped_for_time_budget': skipped,
            'known_findings_hit': {known_sigs[s]['what_fails']: v['count'] for s, v in hit_known.items()},
            'known_signatures_hit': sorted(hit_known),
            'new_violation_signatures': sorted(new),
            'exhaustive': bool(parts) and all(p.exhaustive for p in parts) and skipped == 0,
            'tree_under_test': REPO,
        },
        'assumptions': list(getattr(mod, 'ASSUMPTIONS', [])),
        'wall_s': round(wall, 2),
        'violations': len(new),
    }
    if rc != 2 or evaluations:
        os.makedirs(EVIDENCE_DIR, exist_ok=True)
        with open(os.path.join(EVIDENCE_DIR, '%s.json' % prop), 'w') as f:
            json.dump(ev, f, indent=1, default=repr, sort_keys=False)
    if skipped:
        lines.append('NOTE: time budget reached, %d generated cases were skipped (inconclusive for those, not a violation)' % skipped)
    for ln in lines:
        print(ln)
    print('%s tier=%s seed=%d evaluations=%d distinct_nontrivial=%d known_hit=%d new=%d wall=%.1fs rc=%d' % (
        prop, tier, seed, evaluations, len(keys), len(hit_known), len(new), wall, rc))
    return rc
